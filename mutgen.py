#!/usr/bin/env python3
"""Operator-based mutation sweep over every function under contract (developer tool; results guide contract strengthening).

For every function the templates put under contract, token-level mutation operators are applied to its body in a scratch
copy of /repo/src (one mutant at a time), the pipeline is run with the same decision rule as the checks, and the outcome
is recorded:
  killed     some obligation fails that did not fail on the unmutated tree, in a function whose annotations are all placed
  undecided  the generated file does not compile, or obligations fail only where annotations were lost
  survived   nothing new fails: either an equivalent mutant or a gap in the contracts (to be triaged by hand)

usage: mutgen.py [--jobs N] [--only <substring of function key>] [--limit N] [--out FILE]
Scratch copies live under /var/tmp and are removed.  Nothing here is part of a registered check.
"""
import sys, os, json, shutil, tempfile, re, time, hashlib
from concurrent.futures import ProcessPoolExecutor, as_completed
sys.path.insert(0, os.path.dirname(os.path.abspath(__file__)))
from vlib import pipeline as P, gen
from vlib.lexer import lex, LexError
from vlib.gen import code_toks, match_close, parse_fn
from vlib.extract import ExtractError

SWAPS = {"==": "!=", "!=": "==", "<": "<=", "<=": "<", ">": ">=", ">=": ">", "&&": "||", "||": "&&"}
IDENT_SWAPS = {"true": "false", "false": "true", "all": "any", "any": "all", "is_some": "is_none", "is_none": "is_some",
               "is_ok": "is_err", "is_err": "is_ok", "is_empty": "is_empty_NOT", "min": "max", "max": "min",
               "first": "last", "last": "first"}

def fid(f):
    return (f["ob"] or ("%s@%s" % (f["kind"], f["fn"])), f["fn"], f["kind"], (f.get("site_text") or "")[:80])

def mutants_for(src_text, line0, line1, name):
    """Yield (start, end, replacement, description) for the function spanning lines [line0, line1] of src_text."""
    lines = src_text.split("\n")
    start = sum(len(l) + 1 for l in lines[:line0 - 1])
    end = sum(len(l) + 1 for l in lines[:line1])
    text = src_text[start:end]
    try:
        toks = code_toks(lex(text))
    except Exception:
        return
    # body = first `{` after `fn name`
    k = 0
    while k < len(toks) - 1 and not (toks[k].text == "fn" and toks[k + 1].text == name):
        k += 1
    if k >= len(toks) - 1:
        return
    j = k
    depth_angle = 0
    while j < len(toks) and toks[j].text != "{":
        if toks[j].text == ";":
            return
        if toks[j].text in ("(", "["):
            j = match_close(toks, j)
        j += 1
    if j >= len(toks):
        return
    bo, bc = j, match_close(toks, j)
    for q in range(bo + 1, bc):
        t = toks[q]
        if t.kind == "punct" and t.text in SWAPS:
            # skip generics-looking `<` `>`: require spaces around in the source text
            if t.text in ("<", ">"):
                before = text[t.start - 1:t.start]
                after = text[t.end:t.end + 1]
                if before != " " or after != " ":
                    continue
            yield (start + t.start, start + t.end, SWAPS[t.text], "`%s` -> `%s`" % (t.text, SWAPS[t.text]))
        elif t.kind == "ident" and t.text in IDENT_SWAPS:
            nxt = toks[q + 1].text if q + 1 < bc else ""
            prv = toks[q - 1].text
            if t.text in ("true", "false"):
                yield (start + t.start, start + t.end, IDENT_SWAPS[t.text], "`%s` -> `%s`" % (t.text, IDENT_SWAPS[t.text]))
            elif prv == "." and nxt == "(":
                if t.text == "is_empty":
                    # x.is_empty() -> !x.is_empty() is awkward at token level: negate by wrapping is not possible; skip
                    continue
                yield (start + t.start, start + t.end, IDENT_SWAPS[t.text], "`.%s(` -> `.%s(`" % (t.text, IDENT_SWAPS[t.text]))
        elif t.kind == "punct" and t.text == "!" and q + 1 < bc and (toks[q + 1].kind == "ident" or toks[q + 1].text == "(") \
                and toks[q - 1].text in ("(", "if", "&&", "||", "=", "return", ",", "{", "while"):
            yield (start + t.start, start + t.end, "", "negation `!` removed")
        elif t.kind == "ident" and t.text == "if" and q + 1 < bc and toks[q - 1].text != "else":
            # `if COND { ... bail!/return Err ... }` with no else: the check is dropped
            c = q + 1
            while c < bc and toks[c].text != "{":
                if toks[c].text in ("(", "["):
                    c = match_close(toks, c)
                c += 1
            if c >= bc or toks[q + 1].text == "let":
                continue
            cb = match_close(toks, c)
            body = text[toks[c].start:toks[cb].end]
            if ("bail!" in body or "return Err" in body or "return None" in body) and not (cb + 1 < bc and toks[cb + 1].text == "else"):
                yield (start + toks[q + 1].start, start + toks[c].start, "false ", "check `if %s` dropped" % text[toks[q + 1].start:toks[c].start].strip()[:50])
        elif t.kind == "ident" and t.text == "subject" and toks[q - 1].text == "." and q + 2 < bc and toks[q + 1].text == "(" and toks[q + 2].text == ")":
            yield (start + toks[q - 1].start, start + toks[q + 2].end, "", "`.subject()` removed")
        elif t.kind == "ident" and t.text == "known_values" and q + 2 < bc and toks[q + 1].text == "::" and toks[q + 2].kind == "ident":
            other = "NOTE" if toks[q + 2].text != "NOTE" else "DATE"
            yield (start + toks[q + 2].start, start + toks[q + 2].end, other, "`known_values::%s` -> `known_values::%s`" % (toks[q + 2].text, other))
        elif t.kind == "ident" and t.text == "elide" and toks[q - 1].text == "." and q + 2 < bc and toks[q + 1].text == "(" and toks[q + 2].text == ")":
            yield (start + t.start, start + t.end, "clone", "`.elide()` -> `.clone()`")
        elif t.kind == "ident" and t.text in ("predicate", "object") and toks[q - 1].text == "." and q + 2 < bc and toks[q + 1].text == "(" and toks[q + 2].text == ")":
            o2 = "object" if t.text == "predicate" else "predicate"
            yield (start + t.start, start + t.end, o2, "`.%s()` -> `.%s()`" % (t.text, o2))
        elif t.kind == "ident" and t.text == "Some" and q + 1 < bc and toks[q + 1].text == "(" and toks[q - 1].text in ("=", "(", ",", "{", "=>", "return", ";") :
            c2 = match_close(toks, q + 1)
            yield (start + t.start, start + toks[c2].end, "None", "`Some(..)` -> `None`")
        elif t.kind == "punct" and t.text in ("+", "-") and text[t.start - 1:t.start] == " " and text[t.end:t.end + 1] == " ":
            o2 = "-" if t.text == "+" else "+"
            yield (start + t.start, start + t.end, o2, "`%s` -> `%s`" % (t.text, o2))
        elif t.kind == "punct" and t.text == "(" and toks[q - 1].kind == "ident" and toks[q - 1].text not in ("if", "while", "match", "for", "fn", "Some", "Ok", "Err"):
            # swap the two arguments of a two-argument call (type errors end as `undecided: does not compile`)
            c2 = match_close(toks, q)
            commas = []
            z = q + 1
            while z < c2:
                if toks[z].kind == "punct" and toks[z].text in ("(", "[", "{"):
                    z = match_close(toks, z) + 1
                    continue
                if toks[z].text == "|":          # closure argument: skip the whole call
                    commas = None
                    break
                if toks[z].text == ",":
                    commas.append(z)
                z += 1
            if commas is not None and len(commas) == 1 and commas[0] + 1 < c2:
                a1 = text[toks[q + 1].start:toks[commas[0] - 1].end]
                a2 = text[toks[commas[0] + 1].start:toks[c2 - 1].end]
                if a1.strip() != a2.strip():
                    yield (start + toks[q + 1].start, start + toks[c2 - 1].end, a2 + ", " + a1, "arguments of `%s(..)` swapped" % toks[q - 1].text)
        elif t.kind == "num" and re.fullmatch(r"\d+", t.text or "") and int(t.text) < 100:
            yield (start + t.start, start + t.end, str(int(t.text) + 1), "`%s` -> `%d`" % (t.text, int(t.text) + 1))

def run_one(args):
    idx, rel, s, e, rep, desc, fnkey, base_fail = args
    scratch = tempfile.mkdtemp(prefix="verif_mg_", dir="/var/tmp")
    try:
        shutil.copytree(os.path.join(P.REPO, "src"), os.path.join(scratch, "src"))
        fpath = os.path.join(scratch, "src", rel)
        src = open(fpath).read()
        open(fpath, "w").write(src[:s] + rep + src[e:])
        try:
            em = P.build(repo_root=scratch)
        except (ExtractError, gen.GenError, LexError) as ex:
            return (idx, "undecided", "generation: %s" % str(ex)[:120], [])
        path = os.path.join(scratch, "m.rs")
        open(path, "w").write("\n".join(em.lines))
        res = P.run_verus(path, multiple_errors=10, threads=8)
        an = P.analyse(res, em, path)
        if an.build_errors:
            return (idx, "undecided", "does not compile: %s" % an.build_errors[0][:120].replace("\n", " "), [])
        deg = {d.split(": ")[0] for d in em.degraded if ": orphan: " not in d}
        fresh = [f for f in an.failures if tuple(fid(f)) not in base_fail]
        hit = sorted({(f["ob"] or ("%s@%s" % (f["kind"], f["fn"]))) for f in fresh if f["fn"] not in deg})
        und = sorted({(f["ob"] or ("%s@%s" % (f["kind"], f["fn"]))) for f in fresh if f["fn"] in deg})
        if hit:
            tags = sorted({t for f in fresh if f["fn"] not in deg for t in P.failure_tags(f)})
            return (idx, "killed", ",".join(tags), hit[:3])
        if und:
            return (idx, "undecided", "fails only where annotations were lost", und[:3])
        return (idx, "survived", "", [])
    except P.Undecided as ex:
        return (idx, "undecided", str(ex)[:120], [])
    finally:
        shutil.rmtree(scratch, ignore_errors=True)

def main():
    argv = sys.argv[1:]
    jobs, only, limit, out, resume = 2, None, None, "/tmp/mutgen.jsonl", False
    while argv:
        a = argv.pop(0)
        if a == "--jobs": jobs = int(argv.pop(0))
        elif a == "--only": only = argv.pop(0)
        elif a == "--limit": limit = int(argv.pop(0))
        elif a == "--out": out = argv.pop(0)
        elif a == "--resume": resume = True
    em0 = P.build()
    path0 = os.path.join(P.BUILD, "bcenv_mutgen_base.rs")
    open(path0, "w").write("\n".join(em0.lines))
    base_fail = {tuple(fid(f)) for f in P.analyse(P.run_verus(path0, multiple_errors=30), em0, path0).failures}
    work = []
    seen = set()
    for f in em0.functions:
        if f.get("header") in ("type", "macro") or f["file"].startswith("verif:") or f["file"].startswith("contracts/"):
            continue
        if only and only not in f["key"]:
            continue
        rel = f["file"]
        try:
            src = open(os.path.join(P.REPO, "src", rel)).read()
        except OSError:
            continue
        name = f["name"] if not f["key"].endswith("closure visitor") else None
        nm = f["key"].split("::")[-1] if "::closure" not in f["key"] else f["key"].split("::")[-2]
        for (s, e, rep, desc) in mutants_for(src, f["lines"][0], f["lines"][1], nm) or []:
            k = (rel, s, e, rep)
            if k in seen:
                continue
            seen.add(k)
            work.append((len(work), rel, s, e, rep, desc, f["key"], base_fail))
    if limit:
        work = work[:limit]
    print("mutants: %d over %d functions; jobs=%d" % (len(work), len({w[6] for w in work}), jobs), flush=True)
    counts = {"killed": 0, "undecided": 0, "survived": 0}
    if resume and os.path.exists(out):
        done = set()
        for l in open(out):
            r = json.loads(l)
            done.add((r["file"], r["line"], r["mutation"]))
            counts[r["status"]] += 1
        def _k(w):
            src = open(os.path.join(P.REPO, "src", w[1])).read()
            return (w[1], src.count("\n", 0, w[2]) + 1, w[5])
        work = [w for w in work if _k(w) not in done]
        print("resuming: %d already done, %d left" % (len(done), len(work)), flush=True)
    meta = {w[0]: w for w in work}
    t0 = time.time()
    with open(out, "a" if resume else "w") as fo, ProcessPoolExecutor(max_workers=jobs) as ex:
        futs = [ex.submit(run_one, w) for w in work]
        for n, fu in enumerate(as_completed(futs), 1):
            idx, status, info, obs = fu.result()
            w = meta[idx]
            src = open(os.path.join(P.REPO, "src", w[1])).read()
            line = src.count("\n", 0, w[2]) + 1
            rec = {"fn": w[6], "file": w[1], "line": line, "mutation": w[5], "status": status, "info": info, "obligations": obs}
            fo.write(json.dumps(rec) + "\n"); fo.flush()
            counts[status] += 1
            if status == "survived":
                print("SURVIVED %s:%d %s  [%s]" % (w[1], line, w[5], w[6].split("::")[-1]), flush=True)
            if n % 25 == 0:
                print("... %d/%d  %s  %.0fs" % (n, len(work), counts, time.time() - t0), flush=True)
    print("done: %s in %.0fs -> %s" % (counts, time.time() - t0, out))

if __name__ == "__main__":
    main()
