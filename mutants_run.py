#!/usr/bin/env python3
"""Developer helper: run catalogued mutants whose id starts with one of the given prefixes (all if none) through the
same self-test the thorough tier uses, and print one line per mutant."""
import sys, json, os
sys.path.insert(0, os.path.dirname(os.path.abspath(__file__)))
from vlib import thorough as T, pipeline as P
cat = json.load(open(os.path.join(P.VERIF, "mutations", "catalogue.json")))["mutants"]
pre = sys.argv[1:]
props = sorted({p for m in cat for p in m["expect"] if not pre or any(m["id"].startswith(x) for x in pre)})
seen = set()
for prop in props:
    # restrict the catalogue view
    import vlib.thorough as TT
    orig = json.load
    res = None
    sel = [m for m in cat if prop in m["expect"] and (not pre or any(m["id"].startswith(x) for x in pre))]
    tmp = os.path.join(P.VERIF, "mutations", "catalogue.json")
    full = open(tmp).read()
    try:
        open(tmp, "w").write(json.dumps({"mutants": sel}))
        res = T.mutation_selftest(prop, None)
    finally:
        open(tmp, "w").write(full)
    for m in res["mutants"]:
        print("%-4s %-34s %s %s" % (prop, m["id"], m["status"][:90], ",".join(m.get("obligations", []))[:160]))
