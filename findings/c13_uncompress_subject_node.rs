use bc_envelope::prelude::*;
use bc_components::DigestProvider;

fn main() {
    // nested node: [[s, a1], a2] obtained through the decoder
    let inner = Envelope::new("s").add_assertion("k1", "v1 some longer text to make it compressible, some longer text to make it compressible");
    let a2 = Envelope::new_assertion("k2", "v2");
    let inner_c = inner.untagged_cbor();
    let nested_cbor = CBOR::to_tagged_value(200u64, CBOR::from(vec![inner_c, a2.untagged_cbor()]));
    let nested = Envelope::try_from_cbor(nested_cbor).unwrap();
    println!("nested: subject is node = {}, assertions = {}", nested.subject().is_node(), nested.assertions().len());
    let c = nested.compress_subject().unwrap();
    println!("compress_subject keeps digest: {}", c.digest() == nested.digest());
    let u = c.uncompress_subject().unwrap();
    println!("uncompress_subject keeps digest: {}  identical: {}", u.digest() == nested.digest(), u.is_identical_to(&nested));
    println!("after: subject is node = {}, assertions = {}", u.subject().is_node(), u.assertions().len());
    // round trip of nested node through codec
    let rt = Envelope::try_from_cbor_data(nested.tagged_cbor().to_cbor_data()).unwrap();
    println!("codec round trip identical: {}", rt.is_identical_to(&nested));
}
