// Replay of the failed obligation "Result::unwrap precondition in elide_set_with_action (Compress arm)".
// On the tree before commit a180d38 ("fix: obscuring with the Compress action ...") this panics; after it, it prints ok.
use bc_envelope::prelude::*;
use std::collections::HashSet;
fn main() {
    let e = Envelope::new("a").add_assertion("k", "v");
    let a = e.assertions()[0].clone();
    let elided = e.elide_removing_target(&a);
    let mut t = HashSet::new();
    t.insert(a.digest().into_owned());
    let r = elided.elide_removing_set_with_action(&t, &ObscureAction::Compress);
    assert_eq!(r.digest(), e.digest());
    println!("ok");
}
