// Replay for the two signature findings (see notes/spike/candidate_findings_probe_c09.rs for the original probe):
//  (1) a wrapped signature-with-metadata object WITHOUT an outer 'signed' assertion was accepted and its metadata returned;
//  (2) such a wrapper made with another key made the verification of a later valid signature fail with an error.
// Before the fix commits in /repo this prints ACCEPTED / Err(..); after them: rejected / Ok(true).
use bc_envelope::prelude::*;
use bc_components::{PrivateKeyBase, Signer};
fn main() {
    let alice = PrivateKeyBase::new();
    let bob = PrivateKeyBase::new();
    let subject = Envelope::new("hello");
    let digest = *subject.digest().data();
    let sig_a = alice.schnorr_private_keys().sign(&digest as &dyn AsRef<[u8]>).unwrap();
    let forged = Envelope::new(sig_a).add_assertion(known_values::NOTE, "forged").wrap_envelope();
    let e = subject.add_assertion(known_values::SIGNED, forged);
    match e.verify_signature_from_returning_metadata(&alice.schnorr_public_keys()) {
        Ok(m) => println!("(1) ACCEPTED unsigned metadata: {}", m.format_flat()),
        Err(err) => println!("(1) rejected: {err}"),
    }
    let e2 = e.add_signature(&bob.schnorr_private_keys());
    println!("(2) has_signature_from(bob) = {:?}", e2.has_signature_from(&bob.schnorr_public_keys()).map_err(|x| x.to_string()));
}
