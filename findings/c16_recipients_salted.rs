// Replay of the failed obligation "Option::unwrap precondition" in the closures of recipients().
// Before the fix commit this panics; after it prints the number of recipients.
use bc_envelope::prelude::*;
fn main() {
    let e = Envelope::new("a").add_assertion_salted(known_values::HAS_RECIPIENT, "x", true);
    println!("{:?}", e.recipients().map(|v| v.len()).map_err(|e| e.to_string()));
}
