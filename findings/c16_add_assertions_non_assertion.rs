// Replay of the failed obligation "Result::unwrap precondition" in add_assertions / add_assertions_salted:
// an element of the list that is neither an assertion nor an obscured element makes the call panic
// (called `Result::unwrap()` on an `Err` value: InvalidFormat) although the function returns `Self`, not `Result`.
use bc_envelope::prelude::*;
fn main() {
    let not_an_assertion = Envelope::new("just a leaf");
    let r = std::panic::catch_unwind(|| Envelope::new("s").add_assertions(&[not_an_assertion.clone()]));
    println!("add_assertions panicked: {}", r.is_err());
    let r = std::panic::catch_unwind(|| Envelope::new("s").add_assertions_salted(&[not_an_assertion.clone()], false));
    println!("add_assertions_salted panicked: {}", r.is_err());
}
