// Replay of the failed obligations "Option::unwrap precondition" in object_for_predicate / objects_for_predicate.
// Before the fix commit this panics; after it prints the objects.
use bc_envelope::prelude::*;
fn main() {
    let e = Envelope::new("a").add_assertion_salted("k", "v", true);
    println!("{}", e.object_for_predicate("k").unwrap().format());
    println!("{}", e.objects_for_predicate("k").len());
}
