// Replay of the failed obligation Response::try_from#ens1 (Ok ==> exactly one of result / error, and none of the other).
// Before the fix commit this prints ACCEPTED; after it: rejected.
use bc_envelope::prelude::*;
use bc_components::ARID;
fn main() {
    let ok: Envelope = Response::new_success(ARID::new()).with_result("fine").into();
    let both = ok.add_assertion(known_values::ERROR, "e1").add_assertion(known_values::ERROR, "e2");
    match Response::try_from(both) {
        Ok(r) => println!("ACCEPTED as {}", if r.is_ok() { "success" } else { "failure" }),
        Err(e) => println!("rejected: {e}"),
    }
}
