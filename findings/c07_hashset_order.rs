// Reproduction of a C07 defect on the real crate (run as an integration test: copy to tests/ of a checkout).
// C07: "Equal input values - including unordered collections (sets, maps) used as subject, predicate or object -
// always produce equal digests and bytes."
// `impl EnvelopeEncodable for HashSet<T>` encoded the set through dcbor's `From<HashSet<T>> for CBOR`, which emits the
// elements in the set's iteration order; two equal HashSets (separately built, hence with different RandomState) iterate in
// different orders, so equal sets produced different envelopes.  HashMap is not affected (dcbor's Map sorts its keys).
use std::collections::{HashMap, HashSet};
use bc_envelope::prelude::*;

fn fresh_set() -> HashSet<String> {
    let mut s = HashSet::new();
    for i in 0..24 { s.insert(format!("element-{}", i)); }
    s
}

#[test]
fn equal_hash_sets_give_equal_envelopes() {
    let reference = fresh_set();
    let e0 = Envelope::new(reference.clone());
    for _ in 0..50 {
        let other = fresh_set();
        assert_eq!(reference, other);
        let e1 = Envelope::new(other.clone());
        assert_eq!(e0.digest(), e1.digest(), "equal sets, different digests");
        assert_eq!(e0.to_cbor_data(), e1.to_cbor_data(), "equal sets, different bytes");
        // also as object of an assertion
        let a0 = Envelope::new("s").add_assertion("members", reference.clone());
        let a1 = Envelope::new("s").add_assertion("members", other);
        assert_eq!(a0.digest(), a1.digest());
    }
}

#[test]
fn equal_hash_maps_give_equal_envelopes() {
    let mk = || { let mut m = HashMap::new(); for i in 0..24u32 { m.insert(i, format!("v{}", i)); } m };
    let e0 = Envelope::new(mk());
    for _ in 0..50 { assert_eq!(e0.digest(), Envelope::new(mk()).digest()); }
}
