use bc_envelope::prelude::*;
use bc_components::DigestProvider;
use std::collections::HashSet;

fn main() {
    let e = Envelope::new("Alice").add_assertion("knows", "Bob").add_assertion("age", 30);
    let a = e.assertion_with_predicate("knows").unwrap();      // outer target
    let obj = a.as_object().unwrap();                           // inner target, nested in `a`
    let mut t = HashSet::new();
    t.insert(a.digest().into_owned());
    t.insert(obj.digest().into_owned());
    let root = Envelope::new_elided_for_test(&e);
    match e.proof_contains_set(&t) {
        Some(p) => {
            println!("proof produced: {}", p.format_flat());
            println!("root digest equal: {}", p.digest() == e.digest());
            println!("confirm_contains_set (nested targets): {}", root.confirm_contains_set(&t, &p));
        }
        None => println!("no proof"),
    }
    // multi-position, non nested
    let mut t2 = HashSet::new();
    t2.insert(a.digest().into_owned());
    t2.insert(e.assertion_with_predicate("age").unwrap().digest().into_owned());
    let p2 = e.proof_contains_set(&t2).unwrap();
    println!("confirm (two disjoint targets): {}", root.confirm_contains_set(&t2, &p2));
}
trait T { fn new_elided_for_test(e: &Envelope) -> Envelope; }
impl T for Envelope { fn new_elided_for_test(e: &Envelope) -> Envelope { e.elide() } }
