// Replay of the failed obligations new_with_assertions#ens2 (non-canonical input must be Err) and
// new_with_unchecked_assertions#req5 at the call in new_with_assertions (distinct digests).
// Before the fix commit "fix: the decoder rejects a node whose assertions are not in strictly ascending digest order"
// both decodes succeed (prints ACCEPTED); after it both are errors (prints rejected).
use bc_envelope::prelude::*;
use dcbor::prelude::*;
fn main() {
    let e = Envelope::new("s").add_assertion("k1", "v1").add_assertion("k2", "v2");
    let c = e.untagged_cbor();
    let items = match c.as_case() { CBORCase::Array(a) => a.clone(), _ => panic!() };
    let swapped: CBOR = CBORCase::Array(vec![items[0].clone(), items[2].clone(), items[1].clone()]).into();
    let dup: CBOR = CBORCase::Array(vec![items[0].clone(), items[1].clone(), items[1].clone()]).into();
    for (name, x) in [("swapped", swapped), ("duplicate", dup)] {
        match Envelope::from_untagged_cbor(x.clone()) {
            Ok(d) => println!("{name}: ACCEPTED; re-encodes identically: {}", d.untagged_cbor() == x),
            Err(err) => println!("{name}: rejected ({err})"),
        }
    }
}
