#!/bin/bash
# usage: seedtest.sh <seed-id> <worktree> <PROP>
# Confirms a seeded change against the CURRENT /repo HEAD in the scratch worktree:
#   (1) patch applies and compiles, (2) existing suite passes with it, (3) demo fails with it, (4) demo passes without it.
set -u
id=$1; wt=$2; prop=$3
out=/verif/seeded/$id; mkdir -p $out
cp $wt/seed_out/patch.diff $out/patch.diff; cp $wt/seed_out/seeded_demo.rs $out/seeded_demo.rs; cp $wt/seed_out/notes.md $out/agent_notes.md 2>/dev/null
head=$(git -C /repo rev-parse HEAD)
cd $wt
git checkout -q -- . 2>/dev/null; git clean -fdq -e target 2>/dev/null; git checkout -q --detach $head || exit 3
export CARGO_TARGET_DIR=$wt/target CARGO_NET_OFFLINE=true
res=$out/confirm.log; : > $res
if ! git apply --check $out/patch.diff 2>>$res; then echo "PATCH DOES NOT APPLY to $head" | tee -a $res; exit 4; fi
git apply $out/patch.diff
echo "== suite with patch" >> $res
cargo test --offline --no-fail-fast >> $res.suite 2>&1; s1=$?
echo "suite_with_patch_exit=$s1" | tee -a $res
mkdir -p tests; cp $out/seeded_demo.rs tests/seeded_demo.rs
cargo test --offline --test seeded_demo >> $res.demo_with 2>&1; d1=$?
echo "demo_with_patch_exit=$d1" | tee -a $res
git apply -R $out/patch.diff
cargo test --offline --test seeded_demo >> $res.demo_without 2>&1; d0=$?
echo "demo_without_patch_exit=$d0" | tee -a $res
rm -f tests/seeded_demo.rs
echo "head=$head" >> $res
