#!/bin/bash
# run every claimed check (quick tier) on the current /repo tree; summary on stdout
cd /verif
rc=0
for p in $(python3 -c "import json; print(' '.join(c['property_id'] for c in json.load(open('MANIFEST.json'))['checks']))"); do
  out=$(./check $p --tier ${1:-quick} 2>&1); c=$?
  echo "$p exit=$c :: $(echo "$out" | tail -1)"
  if [ $c -ne 0 ]; then echo "$out" | grep -E "VIOLATION|UNDECIDED|KNOWN" | cut -c1-400; rc=1; fi
done
exit $rc
