// Dependency stand-ins and ASSUMED contracts (std / anyhow / bc-components / dcbor / bc-rand).
// Every `external_body`, `assume_specification` and `axiom` in this file is an assumption about a
// dependency; each is listed in the evidence (`coverage.trusted_base`) on every run.  Nothing in this
// file comes from /repo.

// ============================================================================ std::borrow::Cow
#[derive(Debug)]
pub enum Cow<'a, T: 'a> { Borrowed(&'a T), Owned(T) }
impl<'a, T> Cow<'a, T> {
    pub open spec fn val(self) -> T { match self { Cow::Borrowed(b) => *b, Cow::Owned(o) => o } }
}
impl<'a, T: Clone> Cow<'a, T> {
    #[verifier::external_body]
    pub fn into_owned(self) -> (r: T) ensures r == self.val() { unimplemented!() }
}
impl<'a, T: Clone> Cow<'a, T> {
    #[verifier::external_body]
    pub fn as_ref(&self) -> (r: &T) ensures *r == self.val() { unimplemented!() }
}
impl<'a, T: Clone> std::ops::Deref for Cow<'a, T> {
    type Target = T;
    #[verifier::external_body]
    fn deref(&self) -> (r: &T) ensures *r == self.val() { unimplemented!() }
}
impl<'a, T: PartialEq> PartialEq for Cow<'a, T> {
    #[verifier::external_body]
    fn eq(&self, other: &Self) -> (r: bool) ensures r == (self.val() == other.val()) { unimplemented!() }
}

// ============================================================================ bc_components::Digest
#[verifier::external_body]
#[derive(Debug)]
pub struct Digest { _d: [u8; 32] }
impl View for Digest {
    type V = Seq<u8>;
    uninterp spec fn view(&self) -> Seq<u8>;
}
// [A-digest-len] a Digest is exactly 32 bytes
pub broadcast axiom fn axiom_digest_len(d: Digest)
    ensures #[trigger] d@.len() == 32;
// [A-digest-ext] a Digest is determined by its bytes (newtype over [u8; 32], derive(PartialEq, Eq))
pub broadcast axiom fn axiom_digest_ext(d1: Digest, d2: Digest)
    requires #[trigger] d1@ == #[trigger] d2@
    ensures d1 == d2;
// [A-digest-from-bytes] every 32-byte string is the content of some Digest (Digest::from_data)
pub uninterp spec fn digest_of_bytes(b: Seq<u8>) -> Digest;
pub broadcast axiom fn axiom_digest_of_bytes(b: Seq<u8>)
    requires b.len() == 32
    ensures (#[trigger] digest_of_bytes(b))@ == b;

impl Clone for Digest {
    #[verifier::external_body]
    fn clone(&self) -> (r: Self) ensures r == *self { unimplemented!() }
}
// (stand-in only) Copy lets ghost code mention a digest inside closure contracts without "moving" it;
// the real code is compiled by rustc against the real, non-Copy Digest.
impl Copy for Digest {}
impl PartialEq for Digest {
    #[verifier::external_body]
    fn eq(&self, other: &Self) -> (r: bool) ensures r == (*self == *other) { unimplemented!() }
}
impl vstd::std_specs::cmp::PartialEqSpecImpl for Digest {
    open spec fn obeys_eq_spec() -> bool { true }
    open spec fn eq_spec(&self, other: &Digest) -> bool { *self == *other }
}
impl Eq for Digest {}
impl std::hash::Hash for Digest {
    #[verifier::external_body]
    fn hash<H: std::hash::Hasher>(&self, state: &mut H) { unimplemented!() }
}
// [A-digest-key-model] derive(Hash, PartialEq, Eq) on Digest is a lawful hash-table key
pub broadcast axiom fn axiom_digest_key_model()
    ensures #[trigger] vstd::std_specs::hash::obeys_key_model::<Digest>();

// SHA-256: uninterpreted, no injectivity axiom.
pub uninterp spec fn sha256(s: Seq<u8>) -> Digest;

pub open spec fn concat_digests(ds: Seq<Digest>) -> Seq<u8>
    decreases ds.len()
{
    if ds.len() == 0 { Seq::empty() } else { concat_digests(ds.drop_last()) + ds.last()@ }
}

// Ordering of digests: derive-like `Ord` on [u8; 32] (lexicographic).  Modelled as an uninterpreted
// strict total order; the three order axioms below are the assumption.
pub uninterp spec fn dlt(a: Digest, b: Digest) -> bool;
pub open spec fn dle(a: Digest, b: Digest) -> bool { dlt(a, b) || a == b }
// [A-digest-order] irreflexive, transitive, total
pub broadcast axiom fn axiom_dlt_irrefl(a: Digest)
    ensures !#[trigger] dlt(a, a);
pub broadcast axiom fn axiom_dlt_trans(a: Digest, b: Digest, c: Digest)
    requires #[trigger] dlt(a, b), #[trigger] dlt(b, c)
    ensures dlt(a, c);
pub broadcast axiom fn axiom_dlt_total(a: Digest, b: Digest)
    ensures #[trigger] dlt(a, b) || a == b || #[trigger] dlt(b, a);
pub broadcast group group_digest_axioms {
    axiom_digest_len, axiom_digest_ext, axiom_digest_of_bytes, axiom_dlt_irrefl, axiom_dlt_trans, axiom_dlt_total,
    axiom_digest_key_model,
}

impl Digest {
    // [A-from-digests] Digest::from_digests(ds) = SHA-256(d0 || d1 || ...)
    #[verifier::external_body]
    pub fn from_digests(ds: &[Digest]) -> (r: Digest)
        ensures r == sha256(concat_digests(ds@))
    { unimplemented!() }
    // [A-from-image] Digest::from_image(b) = SHA-256(b)
    #[verifier::external_body]
    pub fn from_image(image: Vec<u8>) -> (r: Digest)
        ensures r == sha256(image@)
    { unimplemented!() }
    // [A-from-data-ref] Ok iff exactly 32 bytes, then those bytes
    #[verifier::external_body]
    pub fn from_data_ref(data: &ByteString) -> (r: Result<Digest>)
        ensures
            (r is Ok) == (data@.len() == 32),
            r matches Ok(d) ==> d@ == data@,
    { unimplemented!() }
    // [A-digest-data]
    #[verifier::external_body]
    pub fn data(&self) -> (r: &[u8; 32]) ensures r@ == self@ { unimplemented!() }
    // [A-digest-as-ref]
    #[verifier::external_body]
    pub fn as_ref(&self) -> (r: &Digest) ensures *r == *self { unimplemented!() }
    // [A-digest-untagged-cbor] Digest::untagged_cbor = byte string of the 32 bytes
    #[verifier::external_body]
    pub fn untagged_cbor(&self) -> (r: CBOR)
        ensures r == cbor_bytes(self@)
    { unimplemented!() }
}
impl<'a> Cow<'a, Digest> {
    // [A-digest-cmp] Ord for Digest
    #[verifier::external_body]
    pub fn cmp(&self, other: &Self) -> (r: Ordering)
        ensures
            (r == Ordering::Less) == dlt(self.val(), other.val()),
            (r == Ordering::Equal) == (self.val() == other.val()),
            (r == Ordering::Greater) == dlt(other.val(), self.val()),
    { unimplemented!() }
}
pub trait DigestProvider {
    spec fn digest_spec(&self) -> Digest;
    fn digest(&self) -> (r: Cow<'_, Digest>)
        ensures r.val() == self.digest_spec();
}
impl DigestProvider for Digest {
    open spec fn digest_spec(&self) -> Digest { *self }
    #[verifier::external_body]
    fn digest(&self) -> (r: Cow<'_, Digest>) { unimplemented!() }
}

// ============================================================================ cascade analysis helpers
// NOT used in any proof.  When a panic site (unwrap/expect/assert!) fails, Verus also reports every later obligation
// of the same function whose proof needed the panic not to happen.  To tell such cascades from independent
// failures the check re-runs a WHAT-IF copy of the file in which exactly the failed panic sites are replaced by
// these assuming variants; obligations that fail only in the first run are charged to C16 alone.
pub trait AssumeUnwrap<T> { fn assume_unwrap(self) -> T; }
impl<T> AssumeUnwrap<T> for Option<T> {
    #[verifier::external_body]
    fn assume_unwrap(self) -> (t: T) ensures self == Some(t) { unimplemented!() }
}
impl<T, E> AssumeUnwrap<T> for std::result::Result<T, E> {
    #[verifier::external_body]
    fn assume_unwrap(self) -> (t: T) ensures self == Ok::<T, E>(t) { unimplemented!() }
}
#[verifier::external_body]
pub fn assume_true(b: bool) ensures b { unimplemented!() }

// ============================================================================ anyhow::Error / EnvelopeError plumbing
// `Error` carries a ghost-like `kind`; From<EnvelopeError> records which error it was.
#[derive(Debug)]
pub struct Error { pub kind: ErrKind }
pub type Result<T, E = Error> = std::result::Result<T, E>;
#[derive(Debug)]
pub enum ErrKind { Envelope(EnvelopeError), Msg, Dep }
impl vstd::std_specs::convert::FromSpecImpl<EnvelopeError> for Error {
    open spec fn obeys_from_spec() -> bool { true }
    open spec fn from_spec(e: EnvelopeError) -> Self { Error { kind: ErrKind::Envelope(e) } }
}
impl From<EnvelopeError> for Error {
    fn from(e: EnvelopeError) -> Self { Error { kind: ErrKind::Envelope(e) } }
}
impl<'a> vstd::std_specs::convert::FromSpecImpl<&'a str> for Error {
    open spec fn obeys_from_spec() -> bool { true }
    open spec fn from_spec(e: &'a str) -> Self { Error { kind: ErrKind::Msg } }
}
impl<'a> From<&'a str> for Error {
    fn from(e: &'a str) -> Self { Error { kind: ErrKind::Msg } }
}
impl Error {
    // anyhow::Error::msg  [A-anyhow-msg]
    pub fn msg(m: &str) -> (r: Error) ensures r.kind == ErrKind::Msg { Error { kind: ErrKind::Msg } }
}
pub open spec fn is_env_err<T>(r: Result<T>, e: EnvelopeError) -> bool {
    r matches Err(err) && err.kind == ErrKind::Envelope(e)
}

// ============================================================================ dcbor
#[derive(Debug)]
pub struct CBOR(pub RefCounted<CBORCase>);
#[derive(Debug)]
pub enum CBORCase {
    Unsigned(u64),
    Negative(u64),
    ByteString(ByteString),
    Text(String),
    Array(Vec<CBOR>),
    Map(Map),
    Tagged(Tag, CBOR),
    Simple(Simple),
}
#[verifier::external_body]
#[derive(Debug)]
pub struct CborText { _p: () }
// dcbor::Simple: the simple values (the float payload is never looked at)
#[derive(Debug)]
pub enum Simple { False, True, Null, Float(f64) }
pub mod dcbor { pub use super::Simple; pub use super::DSet as Set; }
#[derive(Debug)]
pub struct ByteString { pub data: Vec<u8> }
impl View for ByteString {
    type V = Seq<u8>;
    open spec fn view(&self) -> Seq<u8> { self.data@ }
}
#[derive(Debug)]
pub struct Tag { pub value: u64 }
impl Tag {
    pub fn value(&self) -> (r: u64) ensures r == self.value { self.value }
}
// dcbor::Map: an ordered map; the model exposes the sequence of entries (key, value).
#[derive(Debug)]
pub struct Map { pub entries: Vec<(CBOR, CBOR)> }
pub struct MapIter<'a> { pub m: &'a Map, pub pos: usize }
impl Map {
    // [A-map-new]
    #[verifier::external_body]
    pub fn new() -> (r: Map) ensures r.entries@.len() == 0 { unimplemented!() }
    // [A-map-insert-first] inserting into an empty map yields the single entry
    #[verifier::external_body]
    pub fn insert(&mut self, k: CBOR, v: CBOR)
        requires old(self).entries@.len() == 0
        ensures final(self).entries@ == seq![(k, v)]
    { unimplemented!() }
    // [A-map-len]
    #[verifier::external_body]
    pub fn len(&self) -> (r: usize) ensures r == self.entries@.len() { unimplemented!() }
    // [A-map-iter]
    #[verifier::external_body]
    pub fn iter(&self) -> (r: MapIter<'_>) ensures *r.m == *self, r.pos == 0 { unimplemented!() }
}
impl<'a> MapIter<'a> {
    // [A-map-iter-next]
    #[verifier::external_body]
    pub fn next(&mut self) -> (r: Option<(&'a CBOR, &'a CBOR)>)
        ensures
            old(self).pos < old(self).m.entries@.len() ==> (r matches Some(kv)
                && *kv.0 == old(self).m.entries@[old(self).pos as int].0
                && *kv.1 == old(self).m.entries@[old(self).pos as int].1),
            old(self).pos >= old(self).m.entries@.len() ==> r is None,
    { unimplemented!() }
}
impl Clone for Map {
    #[verifier::external_body]
    fn clone(&self) -> (r: Self) ensures r == *self { unimplemented!() }
}
impl Clone for CBOR {
    #[verifier::external_body]
    fn clone(&self) -> (r: Self) ensures r == *self { unimplemented!() }
}
impl vstd::std_specs::convert::FromSpecImpl<CBORCase> for CBOR {
    open spec fn obeys_from_spec() -> bool { true }
    open spec fn from_spec(c: CBORCase) -> Self { CBOR(RefCounted::new(c)) }
}
impl From<CBORCase> for CBOR {
    fn from(c: CBORCase) -> Self { CBOR(RefCounted::new(c)) }
}
impl vstd::std_specs::convert::FromSpecImpl<Map> for CBOR {
    open spec fn obeys_from_spec() -> bool { true }
    open spec fn from_spec(m: Map) -> Self { CBOR(RefCounted::new(CBORCase::Map(m))) }
}
impl From<Map> for CBOR {
    fn from(m: Map) -> Self { CBOR(RefCounted::new(CBORCase::Map(m))) }
}
impl vstd::std_specs::convert::FromSpecImpl<u64> for CBOR {
    open spec fn obeys_from_spec() -> bool { true }
    open spec fn from_spec(v: u64) -> Self { CBOR(RefCounted::new(CBORCase::Unsigned(v))) }
}
impl From<u64> for CBOR {
    fn from(v: u64) -> Self { CBOR(RefCounted::new(CBORCase::Unsigned(v))) }
}
// dcbor::CBOREncodable (`Into<CBOR> + Clone`), as far as the code under contract uses it
pub trait CBOREncodable: Into<CBOR> + Clone { }
// dcbor `From<HashSet<T>> for CBOR`: an Array of the elements IN THE SET'S ITERATION ORDER -- not a function of the set of
// elements (two equal HashSets may iterate differently), so nothing is specified about the result  [A-cbor-from-hashset]
impl<T: Into<CBOR>> From<std::collections::HashSet<T>> for CBOR {
    #[verifier::external_body]
    fn from(v: std::collections::HashSet<T>) -> Self { unimplemented!() }
}
// dcbor::Set: a collection kept sorted by the encoded bytes of its items; `Set::from(HashSet<T>)` followed by
// `CBOR::from(Set)` is therefore determined by the set of elements  [A-dcbor-set-sorted]
#[verifier::external_body]
pub struct DSet { _p: () }
impl DSet { pub uninterp spec fn items(&self) -> CBOR; }
pub uninterp spec fn set_cbor<T>(s: vstd::set::Set<T>) -> CBOR;
pub uninterp spec fn dset_of<T>(s: vstd::set::Set<T>) -> DSet;
pub broadcast axiom fn axiom_dset_items<T>(s: vstd::set::Set<T>)
    ensures (#[trigger] dset_of::<T>(s)).items() == set_cbor::<T>(s);
impl<T: Into<CBOR> + Clone> vstd::std_specs::convert::FromSpecImpl<std::collections::HashSet<T>> for DSet {
    open spec fn obeys_from_spec() -> bool { true }
    open spec fn from_spec(v: std::collections::HashSet<T>) -> Self { dset_of::<T>(v@) }
}
impl<T: Into<CBOR> + Clone> From<std::collections::HashSet<T>> for DSet {
    #[verifier::external_body]
    fn from(v: std::collections::HashSet<T>) -> Self { unimplemented!() }
}
impl vstd::std_specs::convert::FromSpecImpl<DSet> for CBOR {
    open spec fn obeys_from_spec() -> bool { true }
    open spec fn from_spec(v: DSet) -> Self { v.items() }
}
impl From<DSet> for CBOR {
    #[verifier::external_body]
    fn from(v: DSet) -> Self { unimplemented!() }
}
// dcbor `From<HashMap<K, V>> for CBOR`: goes through dcbor's Map, which keeps its entries sorted by the encoded key, so the
// result is determined by the map's content  [A-cbor-from-hashmap]
pub uninterp spec fn hashmap_cbor<K, V>(m: vstd::map::Map<K, V>) -> CBOR;
impl<K: Into<CBOR>, V: Into<CBOR>> vstd::std_specs::convert::FromSpecImpl<std::collections::HashMap<K, V>> for CBOR {
    open spec fn obeys_from_spec() -> bool { true }
    open spec fn from_spec(v: std::collections::HashMap<K, V>) -> Self { hashmap_cbor::<K, V>(v@) }
}
impl<K: Into<CBOR>, V: Into<CBOR>> From<std::collections::HashMap<K, V>> for CBOR {
    #[verifier::external_body]
    fn from(v: std::collections::HashMap<K, V>) -> Self { unimplemented!() }
}
// dcbor `From<Simple> for CBOR`: the Simple item  [A-simple-cbor]
impl vstd::std_specs::convert::FromSpecImpl<Simple> for CBOR {
    open spec fn obeys_from_spec() -> bool { true }
    open spec fn from_spec(v: Simple) -> Self { CBOR(RefCounted::new(CBORCase::Simple(v))) }
}
impl From<Simple> for CBOR {
    fn from(v: Simple) -> Self { CBOR(RefCounted::new(CBORCase::Simple(v))) }
}
pub open spec fn cbor_null() -> CBOR { CBOR(RefCounted::new(CBORCase::Simple(Simple::Null))) }
// dcbor `From<u32> for CBOR`, `From<u8>`, `From<u16>`: the unsigned item of the widened value  [A-uint-cbor]
impl vstd::std_specs::convert::FromSpecImpl<u32> for CBOR {
    open spec fn obeys_from_spec() -> bool { true }
    open spec fn from_spec(v: u32) -> Self { CBOR(RefCounted::new(CBORCase::Unsigned(v as u64))) }
}
impl From<u32> for CBOR {
    fn from(v: u32) -> Self { CBOR(RefCounted::new(CBORCase::Unsigned(v as u64))) }
}
impl vstd::std_specs::convert::FromSpecImpl<u16> for CBOR {
    open spec fn obeys_from_spec() -> bool { true }
    open spec fn from_spec(v: u16) -> Self { CBOR(RefCounted::new(CBORCase::Unsigned(v as u64))) }
}
impl From<u16> for CBOR {
    fn from(v: u16) -> Self { CBOR(RefCounted::new(CBORCase::Unsigned(v as u64))) }
}
impl vstd::std_specs::convert::FromSpecImpl<u8> for CBOR {
    open spec fn obeys_from_spec() -> bool { true }
    open spec fn from_spec(v: u8) -> Self { CBOR(RefCounted::new(CBORCase::Unsigned(v as u64))) }
}
impl From<u8> for CBOR {
    fn from(v: u8) -> Self { CBOR(RefCounted::new(CBORCase::Unsigned(v as u64))) }
}
// [A-u64-try-from-cbor] dcbor: u64::try_from(cbor) is Ok(v) exactly for Unsigned(v)
impl vstd::std_specs::convert::TryFromSpecImpl<CBOR> for u64 {
    open spec fn obeys_try_from_spec() -> bool { true }
    open spec fn try_from_spec(c: CBOR) -> Result<u64, Error> {
        match *c.0 { CBORCase::Unsigned(v) => Ok(v), _ => Err(Error { kind: ErrKind::Dep }) }
    }
}
impl TryFrom<CBOR> for u64 {
    type Error = Error;
    #[verifier::external_body]
    fn try_from(c: CBOR) -> Result<u64, Error> { unimplemented!() }
}
pub open spec fn cbor_bytes(b: Seq<u8>) -> CBOR {
    CBOR(RefCounted::new(CBORCase::ByteString(ByteString { data: vec_of(b) })))
}
pub uninterp spec fn vec_of(b: Seq<u8>) -> Vec<u8>;
// [A-vec-of] every byte string of addressable length is the content of some Vec<u8>
pub broadcast axiom fn axiom_vec_of(b: Seq<u8>)
    requires b.len() <= usize::MAX
    ensures (#[trigger] vec_of(b))@ == b;
// [A-vec-ext] equality of Vec<u8> / Vec<CBOR> / Vec<(CBOR, CBOR)> values is equality of their contents
// (capacity and address are not observable): "identical" is taken up to Vec identity.
pub broadcast axiom fn axiom_vec_u8_ext(a: Vec<u8>, b: Vec<u8>)
    requires #[trigger] a@ == #[trigger] b@
    ensures a == b;
pub broadcast axiom fn axiom_vec_cbor_ext(a: Vec<CBOR>, b: Vec<CBOR>)
    requires #[trigger] a@ == #[trigger] b@
    ensures a == b;
pub broadcast axiom fn axiom_vec_cbor_pair_ext(a: Vec<(CBOR, CBOR)>, b: Vec<(CBOR, CBOR)>)
    requires #[trigger] a@ == #[trigger] b@
    ensures a == b;
pub broadcast group group_vec_ext { axiom_vec_of, axiom_vec_u8_ext, axiom_vec_cbor_ext, axiom_vec_cbor_pair_ext }
pub open spec fn cbor_tagged(tag: u64, item: CBOR) -> CBOR {
    CBOR(RefCounted::new(CBORCase::Tagged(Tag { value: tag }, item)))
}
impl CBOR {
    pub open spec fn s_items(self) -> Seq<CBOR> { match *self.0 { CBORCase::Array(v) => v@, _ => Seq::empty() } }
    pub open spec fn s_tag(self) -> u64 { match *self.0 { CBORCase::Tagged(t, i) => t.value, _ => 0 } }
    pub open spec fn s_inner(self) -> CBOR { match *self.0 { CBORCase::Tagged(t, i) => i, _ => self } }
    pub open spec fn s_entries(self) -> Seq<(CBOR, CBOR)> { match *self.0 { CBORCase::Map(m) => m.entries@, _ => Seq::empty() } }
}
pub open spec fn cbor_unsigned(v: u64) -> CBOR { CBOR(RefCounted::new(CBORCase::Unsigned(v))) }
impl CBOR {
    pub fn as_case(&self) -> (r: &CBORCase) ensures *r == *self.0 { &self.0 }
    // the deterministic CBOR encoding of an item (dcbor): uninterpreted
    pub uninterp spec fn enc(&self) -> Seq<u8>;
    // [A-to-cbor-data]
    #[verifier::external_body]
    pub fn to_cbor_data(&self) -> (r: Vec<u8>) ensures r@ == self.enc() { unimplemented!() }
    // [A-to-tagged-value] CBOR::to_tagged_value(tag, item) = Tagged(tag, item.into())
    #[verifier::external_body]
    pub fn to_tagged_value<I: Into<CBOR>>(tag: u64, item: I) -> (r: CBOR)
        ensures *r.0 matches CBORCase::Tagged(t, inner) && t.value == tag && call_ensures(<I as Into<CBOR>>::into, (item,), inner)
    { unimplemented!() }
    // [A-try-from-data] CBOR::try_from_data is the inverse of to_cbor_data on deterministic encodings:
    // Ok(c) iff data is the dCBOR encoding of c (so the encoding is injective on items)
    #[verifier::external_body]
    pub fn try_from_data(data: Vec<u8>) -> (r: Result<CBOR>)
        ensures
            r matches Ok(c) ==> c.enc() == data@,
            forall|c: CBOR| #![trigger c.enc()] c.enc() == data@ ==> r == Ok::<CBOR, Error>(c),
    { unimplemented!() }
}

// [A-cbor-enc-inj] the deterministic encoding is injective on CBOR items (consistent with [A-try-from-data])
pub broadcast axiom fn axiom_cbor_enc_inj(a: CBOR, b: CBOR)
    requires #[trigger] a.enc() == #[trigger] b.enc()
    ensures a == b;

// bc_components::tags (values from bc-components 0.19 / the envelope I-D)
pub mod tags {
    pub const TAG_ENCODED_CBOR: u64 = 24;
    pub const TAG_ENVELOPE: u64 = 200;
    pub const TAG_LEAF: u64 = 201;
    pub const TAG_KNOWN_VALUE: u64 = 40000;
    pub const TAG_DIGEST: u64 = 40001;
    pub const TAG_ENCRYPTED: u64 = 40002;
    pub const TAG_COMPRESSED: u64 = 40003;
    pub const TAG_REQUEST: u64 = 40004;
    pub const TAG_RESPONSE: u64 = 40005;
    pub const TAG_FUNCTION: u64 = 40006;
    pub const TAG_PARAMETER: u64 = 40007;
    pub const TAG_EVENT: u64 = 40026;
    pub const TAG_ARID: u64 = 40012;
}

// ============================================================================ EncryptedMessage / Compressed / keys
#[verifier::external_body]
#[derive(Debug)]
pub struct EncryptedMessage { _p: () }
impl EncryptedMessage {
    pub uninterp spec fn aad_digest(&self) -> Option<Digest>;
    // [A-enc-has-digest]
    #[verifier::external_body]
    pub fn has_digest(&self) -> (r: bool) ensures r == self.aad_digest().is_some() { unimplemented!() }
    // further accessors of bc_components::EncryptedMessage: present so that code using them compiles; their results are
    // unconstrained (nothing is assumed about them)
    #[verifier::external_body]
    pub fn aad(&self) -> (r: &Vec<u8>) { unimplemented!() }
    #[verifier::external_body]
    pub fn ciphertext(&self) -> (r: &Vec<u8>) { unimplemented!() }
    // [A-enc-opt-digest]
    #[verifier::external_body]
    pub fn opt_digest(&self) -> (r: Option<Digest>) ensures r == self.aad_digest() { unimplemented!() }
}
impl Clone for EncryptedMessage {
    #[verifier::external_body]
    fn clone(&self) -> (r: Self) ensures r == *self { unimplemented!() }
}
pub uninterp spec fn arbitrary_digest() -> Digest;
impl DigestProvider for EncryptedMessage {
    // DigestProvider for EncryptedMessage = the AAD digest (unwrap)
    open spec fn digest_spec(&self) -> Digest {
        match self.aad_digest() { Some(d) => d, None => arbitrary_digest() }
    }
    // [A-enc-digest] panics when there is no digest: the precondition makes that an obligation
    #[verifier::external_body]
    fn digest(&self) -> (r: Cow<'_, Digest>) { unimplemented!() }
}
#[verifier::external_body]
#[derive(Debug)]
pub struct Compressed { _p: () }
impl Compressed {
    pub uninterp spec fn digest_opt(&self) -> Option<Digest>;
    // the data a Compressed inflates to (meaningful when inflatable())
    pub uninterp spec fn inflated(&self) -> Seq<u8>;
    // the compressed payload is not corrupt (uncompress succeeds)
    pub uninterp spec fn inflatable(&self) -> bool;
    // [A-comp-has-digest]
    #[verifier::external_body]
    pub fn has_digest(&self) -> (r: bool) ensures r == self.digest_opt().is_some() { unimplemented!() }
    // [A-comp-from-uncompressed] keeps exactly the given digest; inflates back to the data (deflate round trip)
    #[verifier::external_body]
    pub fn from_uncompressed_data(data: Vec<u8>, digest: Option<Digest>) -> (r: Compressed)
        ensures r.digest_opt() == digest, r.inflated() == data@, r.inflatable()
    { unimplemented!() }
    // [A-comp-uncompress]
    #[verifier::external_body]
    pub fn uncompress(&self) -> (r: Result<Vec<u8>>)
        ensures (r is Ok) == self.inflatable(), r matches Ok(d) ==> d@ == self.inflated()
    { unimplemented!() }
    // [A-comp-digest-ref-opt]
    #[verifier::external_body]
    pub fn digest_ref_opt(&self) -> (r: Option<&Digest>)
        ensures (r is Some) == (self.digest_opt() is Some), r matches Some(d) ==> Some(*d) == self.digest_opt()
    { unimplemented!() }
}
impl Clone for Compressed {
    #[verifier::external_body]
    fn clone(&self) -> (r: Self) ensures r == *self { unimplemented!() }
}
impl DigestProvider for Compressed {
    open spec fn digest_spec(&self) -> Digest {
        match self.digest_opt() { Some(d) => d, None => arbitrary_digest() }
    }
    #[verifier::external_body]
    fn digest(&self) -> (r: Cow<'_, Digest>) { unimplemented!() }
}
// `impl AsRef<Digest>` arguments
pub trait AsRefDigest { spec fn dg(&self) -> Digest; }
impl AsRefDigest for Digest { open spec fn dg(&self) -> Digest { *self } }
impl<'a> AsRefDigest for &'a Digest { open spec fn dg(&self) -> Digest { **self } }
impl<'a> AsRefDigest for Cow<'a, Digest> { open spec fn dg(&self) -> Digest { self.val() } }
impl<'a, 'b> AsRefDigest for &'b Cow<'a, Digest> { open spec fn dg(&self) -> Digest { (**self).val() } }
#[verifier::external_body]
pub struct SymmetricKey { _p: () }
#[verifier::external_body]
pub struct Nonce { _p: () }
impl SymmetricKey {
    // ideal AEAD: what `key.decrypt(msg)` yields (None = authentication failure)
    pub uninterp spec fn aead_open(&self, m: EncryptedMessage) -> Option<Seq<u8>>;
    // [A-encrypt-with-digest] the message carries exactly the given digest and opens to the plaintext under the same key
    #[verifier::external_body]
    pub fn encrypt_with_digest<D: AsRefDigest>(&self, plaintext: Vec<u8>, digest: D, nonce: Option<Nonce>) -> (r: EncryptedMessage)
        ensures r.aad_digest() == Some(digest.dg()), self.aead_open(r) == Some(plaintext@)
    { unimplemented!() }
    // [A-decrypt]
    #[verifier::external_body]
    pub fn decrypt(&self, m: &EncryptedMessage) -> (r: Result<Vec<u8>>)
        ensures
            (r is Ok) == (self.aead_open(*m) is Some),
            r matches Ok(p) ==> Some(p@) == self.aead_open(*m),
    { unimplemented!() }
}

// ============================================================================ std assumed specifications
pub open spec fn sorted_by_closure<T, F: FnMut(&T, &T) -> Ordering>(s: Seq<T>, f: F) -> bool {
    forall|i: int, j: int| #![trigger s[i], s[j]] 0 <= i < j < s.len() ==>
        (call_ensures(f, (&s[i], &s[j]), Ordering::Less) || call_ensures(f, (&s[i], &s[j]), Ordering::Equal))
}
// [A-sort-by] slice::sort_by permutes the slice and leaves it sorted w.r.t. the comparator
pub assume_specification<T, F> [<[T]>::sort_by] (s: &mut [T], f: F)
    where F: FnMut(&T, &T) -> Ordering
    requires forall|a: &T, b: &T| call_requires(f, (a, b)),
    ensures
        final(s)@.to_multiset() == old(s)@.to_multiset(),
        final(s)@.len() == old(s)@.len(),
        sorted_by_closure(final(s)@, f);

// [A-from-reflexive] core's blanket `impl<T> From<T> for T` is the identity
// [A-std-slice-contains] `slice.contains(x)`: some element is `==` to x (for element types whose `==` has a spec)
pub assume_specification<T: PartialEq> [<[T]>::contains] (s: &[T], x: &T) -> (r: bool)
    ensures <T as vstd::std_specs::cmp::PartialEqSpec>::obeys_eq_spec() ==> r == (exists|i: int| 0 <= i < s@.len() && #[trigger] vstd::std_specs::cmp::PartialEqSpec::eq_spec(&s@[i], x));
pub assume_specification<T> [<T as From<T>>::from](t: T) -> (r: T)
    ensures r == t;
// [A-ordering-eq] derive(PartialEq) on std::cmp::Ordering
pub assume_specification [<Ordering as PartialEq>::eq](a: &Ordering, b: &Ordering) -> (r: bool)
    ensures r == (*a == *b);
// [A-option-map-or] Option::map_or
pub assume_specification<T, U, F> [std::option::Option::<T>::map_or] (o: std::option::Option<T>, default: U, f: F) -> (r: U)
    where F: std::ops::FnOnce(T,) -> U + std::marker::Destruct, U: std::marker::Destruct,
    requires o matches Some(x) ==> call_requires(f, (x,)),
    ensures
        o is None ==> r == default,
        o matches Some(x) ==> call_ensures(f, (x,), r);
// [A-string-eq-str] `String == &str` / `String != &str` compare the characters
pub assume_specification<'a> [<String as PartialEq<&'a str>>::eq] (a: &String, b: &&str) -> (r: bool)
    ensures r == (a@ == b@);
pub assume_specification<'a> [<String as PartialEq<&'a str>>::ne] (a: &String, b: &&str) -> (r: bool)
    ensures r == (a@ != b@);
// [A-as-ref-str] `AsRef<str>::as_ref` (argument conversion of `impl AsRef<str>` parameters): no postcondition, the text is unconstrained
#[verifier::external_trait_specification]
pub trait ExAsRef<T: core::marker::PointeeSized>: core::marker::PointeeSized {
    type ExternalTraitSpecificationFor: core::convert::AsRef<T> + core::marker::PointeeSized;
    fn as_ref(&self) -> &T;
}
// [A-result-unwrap-or] Result::unwrap_or / unwrap_or_default (the default value itself is not specified)
pub assume_specification<T, E> [std::result::Result::<T, E>::unwrap_or] (res: std::result::Result<T, E>, default: T) -> (r: T)
    ensures r == (match res { Ok(v) => v, Err(_) => default });
pub assume_specification<T: Default, E> [std::result::Result::<T, E>::unwrap_or_default] (res: std::result::Result<T, E>) -> (r: T)
    ensures res matches Ok(v) ==> r == v;
// [A-option-as-deref] Option::as_deref: Some/None shape, and the target of the reference is `Deref::deref` of the content
pub assume_specification<T> [std::option::Option::<T>::as_deref] (o: &std::option::Option<T>) -> (r: std::option::Option<&<T as std::ops::Deref>::Target>)
    where T: std::ops::Deref,
    ensures (r is Some) == (o is Some), r matches Some(x) ==> x == deref_target(&o->Some_0);
// what `Deref::deref` gives (uninterpreted); for String it is the same text ([A-string-deref])
pub uninterp spec fn deref_target<T: std::ops::Deref>(t: &T) -> &<T as std::ops::Deref>::Target;
pub broadcast axiom fn axiom_string_deref(s: &String)
    ensures (#[trigger] deref_target::<String>(s))@ == s@;
// [A-option-map-or-else] Option::map_or_else: the default closure on None, the mapping closure on the content
pub assume_specification<T, U, D, F> [std::option::Option::<T>::map_or_else] (o: std::option::Option<T>, d: D, f: F) -> (r: U)
    where D: std::ops::FnOnce() -> U + std::marker::Destruct, F: std::ops::FnOnce(T,) -> U + std::marker::Destruct,
    requires o is None ==> call_requires(d, ()), o matches Some(x) ==> call_requires(f, (x,)),
    ensures o is None ==> call_ensures(d, (), r), o matches Some(x) ==> call_ensures(f, (x,), r);
// [A-option-transpose] Option<Result<T, E>>::transpose
pub assume_specification<T, E> [std::option::Option::<std::result::Result<T, E>>::transpose] (o: std::option::Option<std::result::Result<T, E>>) -> (r: std::result::Result<std::option::Option<T>, E>)
    ensures r == (match o { None => Ok(None), Some(Ok(v)) => Ok(Some(v)), Some(Err(e)) => Err(e) });
// [A-unwrap-or-else] Result::unwrap_or_else
pub assume_specification<T, E, F> [std::result::Result::<T, E>::unwrap_or_else] (res: std::result::Result<T, E>, f: F) -> (o: T)
    where F: std::ops::FnOnce(E,) -> T + std::marker::Destruct,
    requires res matches Err(e) ==> call_requires(f, (e,)),
    ensures
        res matches Ok(t) ==> o == t,
        res matches Err(e) ==> call_ensures(f, (e,), o);

// Iterator::any / Iterator::all on a slice iterator: VERIFIED helpers (not assumptions); the generator
// rewrites `X.iter().any(CL)` to `slice_any(X.as_slice(), CL)` (rule R-iter-any, logged), because the
// installed vstd gives `any`/`all` no usable specification.
pub fn slice_any<T, P: Fn(&T) -> bool>(s: &[T], p: P) -> (r: bool)
    requires forall|x: &T| call_requires(p, (x,)),
    ensures
        r ==> exists|j: int| 0 <= j < s@.len() && call_ensures(p, (&#[trigger] s@[j],), true),
        !r ==> forall|j: int| 0 <= j < s@.len() ==> call_ensures(p, (&#[trigger] s@[j],), false),
{
    let mut i: usize = 0;
    while i < s.len()
        invariant i <= s@.len(), forall|x: &T| call_requires(p, (x,)),
            forall|j: int| 0 <= j < i ==> call_ensures(p, (&#[trigger] s@[j],), false),
        decreases s@.len() - i
    {
        if p(&s[i]) { return true; }
        i += 1;
    }
    false
}
pub fn slice_position<T, P: Fn(&T) -> bool>(s: &[T], p: P) -> (r: Option<usize>)
    requires forall|x: &T| call_requires(p, (x,)),
    ensures
        r matches Some(i) ==> i < s@.len() && call_ensures(p, (&s@[i as int],), true)
            && forall|j: int| 0 <= j < i ==> call_ensures(p, (&#[trigger] s@[j],), false),
        r is None ==> forall|j: int| 0 <= j < s@.len() ==> call_ensures(p, (&#[trigger] s@[j],), false),
{
    let mut i: usize = 0;
    while i < s.len()
        invariant i <= s@.len(), forall|x: &T| call_requires(p, (x,)),
            forall|j: int| 0 <= j < i ==> call_ensures(p, (&#[trigger] s@[j],), false),
        decreases s@.len() - i
    {
        if p(&s[i]) { return Some(i); }
        i += 1;
    }
    None
}
pub fn slice_all<T, P: Fn(&T) -> bool>(s: &[T], p: P) -> (r: bool)
    requires forall|x: &T| call_requires(p, (x,)),
    ensures
        r ==> forall|j: int| 0 <= j < s@.len() ==> call_ensures(p, (&#[trigger] s@[j],), true),
        !r ==> exists|j: int| 0 <= j < s@.len() && call_ensures(p, (&#[trigger] s@[j],), false),
{
    let mut i: usize = 0;
    while i < s.len()
        invariant i <= s@.len(), forall|x: &T| call_requires(p, (x,)),
            forall|j: int| 0 <= j < i ==> call_ensures(p, (&#[trigger] s@[j],), true),
        decreases s@.len() - i
    {
        if !p(&s[i]) { return false; }
        i += 1;
    }
    true
}

// ============================================================================ dcbor tagged-codable traits
// Hand-written mirror of dcbor's CBORTagged / CBORTaggedEncodable / CBORTaggedDecodable including their
// DEFAULT methods (tagged_cbor, from_tagged_cbor), which are dependency code: [A-dcbor-tagged-defaults].
pub fn tags_for_values(values: &[u64]) -> (r: Vec<Tag>)
    ensures r@.len() == values@.len(), forall|i: int| 0 <= i < r@.len() ==> (#[trigger] r@[i]).value == values@[i]
{
    let mut v: Vec<Tag> = Vec::new();
    let mut i: usize = 0;
    while i < values.len()
        invariant i <= values@.len(), v@.len() == i, forall|k: int| 0 <= k < i ==> (#[trigger] v@[k]).value == values@[k]
        decreases values@.len() - i
    {
        v.push(Tag { value: values[i] });
        i += 1;
    }
    v
}
pub trait CBORTagged {
    spec fn tag_spec() -> u64;
    fn cbor_tags() -> (r: Vec<Tag>)
        ensures r@.len() >= 1, r@[0].value == Self::tag_spec();
}
pub trait CBORTaggedEncodable: CBORTagged {
    // relational: `c` is the untagged CBOR of self
    spec fn untagged_rel(&self, c: CBOR) -> bool;
    spec fn untagged_pre(&self) -> bool;
    fn untagged_cbor(&self) -> (r: CBOR)
        requires self.untagged_pre()
        ensures self.untagged_rel(r);
    // default method of dcbor: Tagged(cbor_tags()[0], untagged_cbor())
    #[verifier::external_body]
    fn tagged_cbor(&self) -> (r: CBOR)
        requires self.untagged_pre()
        ensures is_tagged_rel(r, Self::tag_spec(), |c: CBOR| self.untagged_rel(c))
    { unimplemented!() }
}
pub open spec fn is_tagged_rel(r: CBOR, tag: u64, inner_ok: spec_fn(CBOR) -> bool) -> bool {
    *r.0 matches CBORCase::Tagged(t, inner) && t.value == tag && inner_ok(inner)
}
pub trait CBORTaggedDecodable: CBORTagged + Sized {
    // relational: decoding `c` (untagged) may yield `r`
    spec fn decode_rel(c: CBOR, r: Result<Self>) -> bool;
    fn from_untagged_cbor(cbor: CBOR) -> (r: Result<Self>)
        ensures Self::decode_rel(cbor, r);
    // default method of dcbor: CBOR::try_from_data(data) then from_tagged_cbor
    #[verifier::external_body]
    fn from_tagged_cbor_data(data: Vec<u8>) -> (r: Result<Self>)
        ensures
            (forall|c: CBOR| c.enc() != data@) ==> r is Err,
            forall|c: CBOR| #![trigger c.enc()] c.enc() == data@ ==> {
                &&& (*c.0 is Tagged && c.s_tag() == Self::tag_spec()) ==> Self::decode_rel(c.s_inner(), r)
                &&& !(*c.0 is Tagged && c.s_tag() == Self::tag_spec()) ==> r is Err
            },
    { unimplemented!() }
    // default method of dcbor: checks the tag (any of cbor_tags()), then from_untagged_cbor(item)
    #[verifier::external_body]
    fn from_tagged_cbor(cbor: CBOR) -> (r: Result<Self>)
        ensures
            (*cbor.0 matches CBORCase::Tagged(t, inner) && t.value == Self::tag_spec()) ==> Self::decode_rel(cbor.0->Tagged_1, r),
            !(*cbor.0 matches CBORCase::Tagged(t, inner) && t.value == Self::tag_spec()) ==> r is Err,
    { unimplemented!() }
}
// EncryptedMessage / Compressed codecs (bc-components): [A-enc-codec], [A-comp-codec]
impl EncryptedMessage { pub uninterp spec fn em_untagged(&self) -> CBOR; }
impl Compressed { pub uninterp spec fn cz_untagged(&self) -> CBOR; }
// [A-enc-codec-inj], [A-comp-codec-inj]: the untagged CBOR determines the message (decoding is a function)
pub broadcast axiom fn axiom_em_untagged_inj(a: EncryptedMessage, b: EncryptedMessage)
    requires #[trigger] a.em_untagged() == #[trigger] b.em_untagged()
    ensures a == b;
pub broadcast axiom fn axiom_cz_untagged_inj(a: Compressed, b: Compressed)
    requires #[trigger] a.cz_untagged() == #[trigger] b.cz_untagged()
    ensures a == b;
pub broadcast group group_codec_inj { axiom_em_untagged_inj, axiom_cz_untagged_inj }
impl CBORTagged for EncryptedMessage {
    open spec fn tag_spec() -> u64 { tags::TAG_ENCRYPTED }
    #[verifier::external_body]
    fn cbor_tags() -> (r: Vec<Tag>) { unimplemented!() }
}
impl CBORTaggedEncodable for EncryptedMessage {
    open spec fn untagged_rel(&self, c: CBOR) -> bool { c == self.em_untagged() }
    open spec fn untagged_pre(&self) -> bool { true }
    #[verifier::external_body]
    fn untagged_cbor(&self) -> (r: CBOR) { unimplemented!() }
}
impl CBORTaggedDecodable for EncryptedMessage {
    // decoding is the inverse of encoding: Ok(m) iff c is m's untagged CBOR
    open spec fn decode_rel(c: CBOR, r: Result<Self>) -> bool {
        (r matches Ok(m) ==> m.em_untagged() == c) && (r is Err ==> forall|m: EncryptedMessage| m.em_untagged() != c)
    }
    #[verifier::external_body]
    fn from_untagged_cbor(cbor: CBOR) -> (r: Result<Self>) { unimplemented!() }
}
impl CBORTagged for Compressed {
    open spec fn tag_spec() -> u64 { tags::TAG_COMPRESSED }
    #[verifier::external_body]
    fn cbor_tags() -> (r: Vec<Tag>) { unimplemented!() }
}
impl CBORTaggedEncodable for Compressed {
    open spec fn untagged_rel(&self, c: CBOR) -> bool { c == self.cz_untagged() }
    open spec fn untagged_pre(&self) -> bool { true }
    #[verifier::external_body]
    fn untagged_cbor(&self) -> (r: CBOR) { unimplemented!() }
}
impl CBORTaggedDecodable for Compressed {
    open spec fn decode_rel(c: CBOR, r: Result<Self>) -> bool {
        (r matches Ok(m) ==> m.cz_untagged() == c) && (r is Err ==> forall|m: Compressed| m.cz_untagged() != c)
    }
    #[verifier::external_body]
    fn from_untagged_cbor(cbor: CBOR) -> (r: Result<Self>) { unimplemented!() }
}

// ============================================================================ std::collections::HashSet<Digest> helpers
// [A-hashset-extend] `set.extend(other.iter().cloned())` inserts every element of other (rule R-subst in proof.rs)
#[verifier::external_body]
pub fn hashset_extend_from(set: &mut HashSet<Digest>, other: &HashSet<Digest>)
    ensures final(set)@ == old(set)@.union(other@)
{ unimplemented!() }
// [A-hashset-singleton] `HashSet::from_iter(iter::once(x))` (rule R-subst)
#[verifier::external_body]
pub fn hashset_singleton(x: Digest) -> (r: HashSet<Digest>)
    ensures r@ == set![x]
{ unimplemented!() }
// [A-hashset-clone], [A-hashset-is-subset], [A-hashset-is-disjoint]: std HashSet operations vstd has no specification for
pub assume_specification<T: Clone, S: Clone, A: std::alloc::Allocator + Clone> [<std::collections::HashSet<T, S, A> as Clone>::clone] (s: &std::collections::HashSet<T, S, A>) -> (r: std::collections::HashSet<T, S, A>)
    ensures r@ == s@;
pub assume_specification<T: std::cmp::Eq + std::hash::Hash, S: std::hash::BuildHasher, A: std::alloc::Allocator> [std::collections::HashSet::<T, S, A>::is_subset] (a: &std::collections::HashSet<T, S, A>, b: &std::collections::HashSet<T, S, A>) -> (r: bool)
    ensures r == a@.subset_of(b@);
pub assume_specification<T: std::cmp::Eq + std::hash::Hash, S: std::hash::BuildHasher, A: std::alloc::Allocator> [std::collections::HashSet::<T, S, A>::is_disjoint] (a: &std::collections::HashSet<T, S, A>, b: &std::collections::HashSet<T, S, A>) -> (r: bool)
    ensures r == a@.disjoint(b@);

// ============================================================================ leaf payload types of bc-components
// Each is an opaque type with an uninterpreted CBOR image (its `From<T> for CBOR` in bc-components): [A-leaf-cbor]
#[verifier::external_body]
#[derive(Debug)]
pub struct Salt { _p: () }
impl Clone for Salt {
    #[verifier::external_body]
    fn clone(&self) -> (r: Self) ensures r == *self { unimplemented!() }
}
pub uninterp spec fn salt_cbor(x: Salt) -> CBOR;
impl vstd::std_specs::convert::FromSpecImpl<Salt> for CBOR {
    open spec fn obeys_from_spec() -> bool { true }
    open spec fn from_spec(x: Salt) -> Self { salt_cbor(x) }
}
impl From<Salt> for CBOR {
    #[verifier::external_body]
    fn from(x: Salt) -> Self { unimplemented!() }
}

// bc_rand::RandomNumberGenerator and Salt constructors: [A-salt-new-*].  What the dependency guarantees about the
// LENGTH of the salt (f64 arithmetic inside bc-components) is not modelled: the length is an uninterpreted function.
pub trait RandomNumberGenerator { }
pub struct SecureRandomNumberGenerator;
impl RandomNumberGenerator for SecureRandomNumberGenerator { }
pub mod bc_rand { pub use super::SecureRandomNumberGenerator; pub use super::RandomNumberGenerator; }
impl Salt {
    pub uninterp spec fn len_spec(&self) -> nat;
    // [A-salt-for-size] bc-components Salt::new_for_size_using: a length between max(8, ceil(5% of size)) and
    // max(min + 8, ceil(25% of size)); the f64 arithmetic `(size as f64 * 0.05).ceil()` is idealised as the integer ceiling
    #[verifier::external_body]
    pub fn new_for_size_using<R: RandomNumberGenerator>(size: usize, rng: &mut R) -> (r: Salt)
        ensures salt_len_ok(size as nat, r.len_spec())
    { unimplemented!() }
    #[verifier::external_body]
    pub fn new_with_len_using<R: RandomNumberGenerator>(count: usize, rng: &mut R) -> (r: Result<Salt>)
        ensures r matches Ok(s) ==> s.len_spec() == count, count < 8 ==> r is Err
    { unimplemented!() }
    // [A-salt-in-range] bc-components Salt::new_in_range_using: refused below 8, else a length within the range
    #[verifier::external_body]
    pub fn new_in_range_using<R: RandomNumberGenerator>(range: &std::ops::RangeInclusive<usize>, rng: &mut R) -> (r: Result<Salt>)
        ensures r matches Ok(s) ==> range@.start <= s.len_spec() <= range@.end, range@.start < 8 ==> r is Err
    { unimplemented!() }
}
// the documented salt length range for content of `size` bytes
pub open spec fn salt_min(size: nat) -> nat { let m = (size + 19) / 20; if m > 8 { m } else { 8 } }
pub open spec fn salt_max(size: nat) -> nat { let m = (size + 3) / 4; if m > salt_min(size) + 8 { m } else { salt_min(size) + 8 } }
pub open spec fn salt_len_ok(size: nat, len: nat) -> bool { salt_min(size) <= len <= salt_max(size) }

// ============================================================================ signatures (bc-components signing)
#[verifier::external_body]
#[derive(Debug)]
pub struct Signature { _p: () }
impl Clone for Signature {
    #[verifier::external_body]
    fn clone(&self) -> (r: Self) ensures r == *self { unimplemented!() }
}
pub uninterp spec fn signature_cbor(x: Signature) -> CBOR;
impl vstd::std_specs::convert::FromSpecImpl<Signature> for CBOR {
    open spec fn obeys_from_spec() -> bool { true }
    open spec fn from_spec(x: Signature) -> Self { signature_cbor(x) }
}
impl From<Signature> for CBOR {
    #[verifier::external_body]
    fn from(x: Signature) -> Self { unimplemented!() }
}

// [A-signature-codec] the CBOR image determines the Signature
pub broadcast axiom fn axiom_signature_cbor_inj(a: Signature, b: Signature)
    requires #[trigger] signature_cbor(a) == #[trigger] signature_cbor(b)
    ensures a == b;
// [A-signature-codec] decoding a Signature from CBOR is the inverse of its encoding
impl vstd::std_specs::convert::TryFromSpecImpl<CBOR> for Signature {
    open spec fn obeys_try_from_spec() -> bool { false }
    uninterp spec fn try_from_spec(c: CBOR) -> Result<Signature, Error>;
}
impl TryFrom<CBOR> for Signature {
    type Error = Error;
    #[verifier::external_body]
    fn try_from(c: CBOR) -> (r: Result<Signature, Error>)
        ensures r matches Ok(s) ==> signature_cbor(s) == c, (forall|s: Signature| signature_cbor(s) != c) ==> r is Err
    { unimplemented!() }
}
#[verifier::external_body]
#[derive(Debug)]
pub struct SigningOptions { _p: () }
impl Clone for SigningOptions {
    #[verifier::external_body]
    fn clone(&self) -> (r: Self) ensures r == *self { unimplemented!() }
}
// message arguments (`&dyn AsRef<[u8]>` in bc-components; AsRef is not known to Verus, rule R-subst drops the cast)
pub trait SignMsg { spec fn msg(&self) -> Seq<u8>; }
impl SignMsg for [u8; 32] { open spec fn msg(&self) -> Seq<u8> { self@ } }
impl SignMsg for Digest { open spec fn msg(&self) -> Seq<u8> { self@ } }
impl<'a> SignMsg for &'a Digest { open spec fn msg(&self) -> Seq<u8> { (**self)@ } }
// ideal signature scheme: sig_valid(k, s, m) = "s verifies for message m under verification key k"
pub uninterp spec fn sig_valid(key: int, s: Signature, m: Seq<u8>) -> bool;
pub trait Signer {
    // the verification key that matches this signing key
    spec fn vkey(&self) -> int;
    // whether this signer accepts these options (an SSH signing key refuses `None`; the other schemes accept anything)
    spec fn sign_ok(&self, options: Option<SigningOptions>) -> bool;
    // [A-sign-correct] a produced signature verifies under the matching key; [A-sign-ok] signing succeeds when the signer
    // accepts the options (it does NOT always succeed: `sign_ok`)
    fn sign_with_options(&self, message: &dyn SignMsg, options: Option<SigningOptions>) -> (r: Result<Signature>)
        ensures self.sign_ok(options) ==> r is Ok, r matches Ok(s) ==> sig_valid(self.vkey(), s, message.msg());
}
pub trait Verifier {
    spec fn vkey(&self) -> int;
    // [A-verify] Verifier::verify decides sig_valid for its key
    fn verify(&self, signature: &Signature, message: &dyn SignMsg) -> (r: bool)
        ensures r == sig_valid(self.vkey(), *signature, message.msg());
}

// Iterator::find_map on a slice iterator: VERIFIED helper (rule R-iter-find_map)
pub fn slice_find_map<T, B, P: Fn(&T) -> Option<B>>(s: &[T], p: P) -> (r: Option<B>)
    requires forall|x: &T| call_requires(p, (x,)),
    ensures
        r matches Some(v) ==> exists|i: int| 0 <= i < s@.len() && call_ensures(p, (&#[trigger] s@[i],), Some(v))
            && forall|j: int| 0 <= j < i ==> call_ensures(p, (&#[trigger] s@[j],), None::<B>),
        r is None ==> forall|j: int| 0 <= j < s@.len() ==> call_ensures(p, (&#[trigger] s@[j],), None::<B>),
{
    let mut i: usize = 0;
    while i < s.len()
        invariant i <= s@.len(), forall|x: &T| call_requires(p, (x,)),
            forall|j: int| 0 <= j < i ==> call_ensures(p, (&#[trigger] s@[j],), None::<B>),
        decreases s@.len() - i
    {
        let o = p(&s[i]);
        if o.is_some() { return o; }
        i += 1;
    }
    None
}

// ============================================================================ public-key encryption (bc-components encapsulation)
#[verifier::external_body]
#[derive(Debug)]
pub struct SealedMessage { _p: () }
impl Clone for SealedMessage {
    #[verifier::external_body]
    fn clone(&self) -> (r: Self) ensures r == *self { unimplemented!() }
}
pub uninterp spec fn sealed_cbor(x: SealedMessage) -> CBOR;
impl vstd::std_specs::convert::FromSpecImpl<SealedMessage> for CBOR {
    open spec fn obeys_from_spec() -> bool { true }
    open spec fn from_spec(x: SealedMessage) -> Self { sealed_cbor(x) }
}
impl From<SealedMessage> for CBOR {
    #[verifier::external_body]
    fn from(x: SealedMessage) -> Self { unimplemented!() }
}

// [A-sealed-codec]
pub broadcast axiom fn axiom_sealed_cbor_inj(a: SealedMessage, b: SealedMessage)
    requires #[trigger] sealed_cbor(a) == #[trigger] sealed_cbor(b)
    ensures a == b;
impl vstd::std_specs::convert::TryFromSpecImpl<CBOR> for SealedMessage {
    open spec fn obeys_try_from_spec() -> bool { false }
    uninterp spec fn try_from_spec(c: CBOR) -> Result<SealedMessage, Error>;
}
impl TryFrom<CBOR> for SealedMessage {
    type Error = Error;
    #[verifier::external_body]
    fn try_from(c: CBOR) -> (r: Result<SealedMessage, Error>)
        ensures r matches Ok(s) ==> sealed_cbor(s) == c, (exists|s: SealedMessage| sealed_cbor(s) == c) ==> r is Ok
    { unimplemented!() }
}
// ideal KEM+AEAD: sealed_open(k, m) = what the holder of decryption key k obtains from m (None = cannot open)
pub uninterp spec fn sealed_open(dkey: int, m: SealedMessage) -> Option<Seq<u8>>;
pub trait Encrypter {
    // identity of the key pair (the decryption key that matches this encryption key)
    spec fn dkey(&self) -> int;
}
pub trait Decrypter {
    spec fn dkey(&self) -> int;
}
impl SealedMessage {
    // [A-sealed-new] a message sealed to a recipient opens to the plaintext under the matching private key
    #[verifier::external_body]
    pub fn new_opt(plaintext: Vec<u8>, recipient: &dyn Encrypter, aad: Option<Vec<u8>>, test_nonce: Option<&Nonce>) -> (r: SealedMessage)
        ensures sealed_open(recipient.dkey(), r) == Some(plaintext@)
    { unimplemented!() }
    // [A-sealed-decrypt]
    #[verifier::external_body]
    pub fn decrypt(&self, private_key: &dyn Decrypter) -> (r: Result<Vec<u8>>)
        ensures (r is Ok) == (sealed_open(private_key.dkey(), *self) is Some), r matches Ok(p) ==> Some(p@) == sealed_open(private_key.dkey(), *self)
    { unimplemented!() }
}
impl SymmetricKey {
    // the tagged CBOR bytes of the key
    pub uninterp spec fn key_cbor_data(&self) -> Seq<u8>;
    // [A-symkey-new]
    #[verifier::external_body]
    pub fn new() -> (r: SymmetricKey) { unimplemented!() }
    // [A-symkey-codec] to_cbor_data / from_tagged_cbor_data are inverse
    #[verifier::external_body]
    pub fn to_cbor_data(&self) -> (r: Vec<u8>) ensures r@ == self.key_cbor_data() { unimplemented!() }
    #[verifier::external_body]
    pub fn from_tagged_cbor_data(data: Vec<u8>) -> (r: Result<SymmetricKey>)
        ensures r matches Ok(k) ==> k.key_cbor_data() == data@, (exists|k: SymmetricKey| k.key_cbor_data() == data@) ==> r is Ok
    { unimplemented!() }
}
// [A-symkey-codec] the CBOR bytes determine the key
pub broadcast axiom fn axiom_symkey_data_inj(a: SymmetricKey, b: SymmetricKey)
    requires #[trigger] a.key_cbor_data() == #[trigger] b.key_cbor_data()
    ensures a == b;

// ============================================================================ SSKR (bc-components / sskr / bc-shamir)
#[verifier::external_body]
#[derive(Debug)]
pub struct SSKRShare { _p: () }
impl Clone for SSKRShare {
    #[verifier::external_body]
    fn clone(&self) -> (r: Self) ensures r == *self { unimplemented!() }
}
pub uninterp spec fn sskr_share_cbor(x: SSKRShare) -> CBOR;
// [A-sskr-share-codec-inj] the CBOR determines the share (decoding is a function)
pub broadcast axiom fn axiom_sskr_share_cbor_inj(a: SSKRShare, b: SSKRShare)
    requires #[trigger] sskr_share_cbor(a) == #[trigger] sskr_share_cbor(b)
    ensures a == b;
impl vstd::std_specs::convert::FromSpecImpl<SSKRShare> for CBOR {
    open spec fn obeys_from_spec() -> bool { true }
    open spec fn from_spec(x: SSKRShare) -> Self { sskr_share_cbor(x) }
}
impl From<SSKRShare> for CBOR {
    #[verifier::external_body]
    fn from(x: SSKRShare) -> Self { unimplemented!() }
}

impl vstd::std_specs::convert::TryFromSpecImpl<CBOR> for SSKRShare {
    open spec fn obeys_try_from_spec() -> bool { false }
    uninterp spec fn try_from_spec(c: CBOR) -> Result<SSKRShare, Error>;
}
impl TryFrom<CBOR> for SSKRShare {
    type Error = Error;
    // [A-sskr-share-codec] decoding inverts encoding: Ok(s) exactly for the CBOR of a share s
    #[verifier::external_body]
    fn try_from(c: CBOR) -> (r: Result<SSKRShare, Error>)
        ensures r matches Ok(s) ==> sskr_share_cbor(s) == c, (exists|s: SSKRShare| sskr_share_cbor(s) == c) ==> r is Ok
    { unimplemented!() }
}
impl SSKRShare {
    pub uninterp spec fn ident(&self) -> u16;
    #[verifier::external_body]
    pub fn identifier(&self) -> (r: u16) ensures r == self.ident() { unimplemented!() }
}
#[verifier::external_body]
pub struct SSKRSpec { _p: () }
#[verifier::external_body]
pub struct SSKRSecret { _p: () }
impl SSKRSecret {
    pub uninterp spec fn bytes(&self) -> Seq<u8>;
    // [A-sskr-secret-new]
    #[verifier::external_body]
    pub fn new(data: &[u8; 32]) -> (r: Result<SSKRSecret>) ensures r matches Ok(s) ==> s.bytes() == data@ { unimplemented!() }
}
// Shamir semantics are entirely in the dependency: what a set of shares combines to is uninterpreted.
pub uninterp spec fn sskr_combine_spec(shares: Seq<SSKRShare>) -> Option<Seq<u8>>;
// [A-sskr-generate] / [A-sskr-combine]
#[verifier::external_body]
pub fn sskr_generate_using<R: RandomNumberGenerator>(spec: &SSKRSpec, master_secret: &SSKRSecret, rng: &mut R) -> (r: Result<Vec<Vec<SSKRShare>>>)
{ unimplemented!() }
#[verifier::external_body]
pub fn sskr_combine(shares: &Vec<SSKRShare>) -> (r: Result<SSKRSecret>)
    ensures (r is Ok) == (sskr_combine_spec(shares@) is Some), r matches Ok(s) ==> Some(s.bytes()) == sskr_combine_spec(shares@)
{ unimplemented!() }
impl SymmetricKey {
    pub uninterp spec fn key_bytes(&self) -> Seq<u8>;
    // [A-symkey-data]
    #[verifier::external_body]
    pub fn data(&self) -> (r: &[u8; 32]) ensures r@ == self.key_bytes() { unimplemented!() }
    #[verifier::external_body]
    pub fn from_data_ref(secret: &SSKRSecret) -> (r: Result<SymmetricKey>)
        ensures r matches Ok(k) ==> k.key_bytes() == secret.bytes(), secret.bytes().len() == 32 ==> r is Ok
    { unimplemented!() }
}
// [A-symkey-bytes-inj] a symmetric key is its 32 bytes
pub broadcast axiom fn axiom_symkey_bytes_inj(a: SymmetricKey, b: SymmetricKey)
    requires #[trigger] a.key_bytes() == #[trigger] b.key_bytes()
    ensures a == b;
// HashMap<u16, Vec<SSKRShare>> grouping used by sskr_shares_in:
//   `result.entry(id).and_modify(|shares| shares.push(share.clone())).or_insert(vec![share]);`  (rule R-subst)
// [A-hashmap-group-push] `map.entry(id).and_modify(|v| v.push(share.clone())).or_insert(vec![share])`:
// appends the share to the group with that identifier (creating it if absent); other groups untouched
#[verifier::external_body]
pub fn hashmap_group_push(map: &mut HashMap<u16, Vec<SSKRShare>>, id: u16, share: SSKRShare)
    ensures
        final(map)@.dom() == old(map)@.dom().insert(id),
        final(map)@[id]@ == (if old(map)@.contains_key(id) { old(map)@[id]@ } else { Seq::<SSKRShare>::empty() }).push(share),
        forall|k: u16| k != id && old(map)@.contains_key(k) ==> #[trigger] final(map)@[k] == old(map)@[k],
{ unimplemented!() }
// `map.values().cloned().collect()`  (rule R-subst)  [A-hashmap-values]: the groups of the map, in some order
#[verifier::external_body]
pub fn hashmap_values_cloned(map: HashMap<u16, Vec<SSKRShare>>) -> (r: Vec<Vec<SSKRShare>>)
    ensures
        forall|k: u16| map@.contains_key(k) ==> exists|g: int| 0 <= g < r@.len() && #[trigger] r@[g] == map@[k],
        forall|g: int| 0 <= g < r@.len() ==> exists|k: u16| map@.contains_key(k) && map@[k] == #[trigger] r@[g],
{ unimplemented!() }

// ============================================================================ text leaves
// dcbor `From<String> for CBOR` / `From<&str> for CBOR`: a Text item determined by the characters  [A-text-cbor]
pub uninterp spec fn text_cbor(s: Seq<char>) -> CBOR;
impl vstd::std_specs::convert::FromSpecImpl<String> for CBOR {
    open spec fn obeys_from_spec() -> bool { true }
    open spec fn from_spec(x: String) -> Self { text_cbor(x@) }
}
impl From<String> for CBOR {
    #[verifier::external_body]
    fn from(x: String) -> Self { unimplemented!() }
}
impl<'a> vstd::std_specs::convert::FromSpecImpl<&'a str> for CBOR {
    open spec fn obeys_from_spec() -> bool { true }
    open spec fn from_spec(x: &'a str) -> Self { text_cbor(x@) }
}
impl<'a> From<&'a str> for CBOR {
    #[verifier::external_body]
    fn from(x: &'a str) -> Self { unimplemented!() }
}
impl vstd::std_specs::convert::TryFromSpecImpl<CBOR> for String {
    open spec fn obeys_try_from_spec() -> bool { false }
    uninterp spec fn try_from_spec(c: CBOR) -> Result<String, Error>;
}
impl TryFrom<CBOR> for String {
    type Error = Error;
    // [A-text-cbor] String::try_from(cbor) is Ok(s) exactly for the Text item of s
    #[verifier::external_body]
    fn try_from(c: CBOR) -> (r: Result<String, Error>)
        ensures r matches Ok(s) ==> text_cbor(s@) == c, (exists|t: Seq<char>| text_cbor(t) == c) ==> r is Ok
    { unimplemented!() }
}
// [A-text-cbor] text_cbor(s) is the Text item with exactly those characters, and every Text item is one
pub broadcast axiom fn axiom_text_cbor_shape(s: Seq<char>)
    ensures *(#[trigger] text_cbor(s)).0 matches CBORCase::Text(t) && t@ == s;
pub open spec fn cbor_text_chars(c: CBOR) -> Seq<char> { match *c.0 { CBORCase::Text(t) => t@, _ => Seq::empty() } }
pub broadcast axiom fn axiom_text_cbor_of(c: CBOR)
    ensures *c.0 is Text ==> c == text_cbor(#[trigger] cbor_text_chars(c));
// [A-text-cbor] distinct texts have distinct items
pub broadcast axiom fn axiom_text_cbor_inj(a: Seq<char>, b: Seq<char>)
    requires #[trigger] text_cbor(a) == #[trigger] text_cbor(b)
    ensures a == b;
// [A-string-from-str] String::from(&str) / <&str as Into<String>>::into keep the characters
pub assume_specification<'a> [<String as From<&'a str>>::from] (s: &str) -> (r: String)
    ensures r@ == s@;
// [A-str-eq-ignore-ascii-case] str::eq_ignore_ascii_case: equal texts compare equal (nothing is said about different texts)
pub assume_specification [str::eq_ignore_ascii_case] (a: &str, b: &str) -> (r: bool)
    ensures a@ == b@ ==> r;
// [A-str-to-string] str::to_string / String::as_str / Option::as_deref keep the characters
#[verifier::external_body]
pub fn str_to_string(s: &str) -> (r: String) ensures r@ == s@ { unimplemented!() }

// ============================================================================ dcbor::Date (leaf payload)
#[verifier::external_body]
#[derive(Debug)]
pub struct Date { _p: () }
impl Clone for Date {
    #[verifier::external_body]
    fn clone(&self) -> (r: Self) ensures r == *self { unimplemented!() }
}
pub uninterp spec fn date_cbor(x: Date) -> CBOR;
// [A-date-codec-inj] the CBOR determines the date
pub broadcast axiom fn axiom_date_cbor_inj(a: Date, b: Date)
    requires #[trigger] date_cbor(a) == #[trigger] date_cbor(b)
    ensures a == b;
impl vstd::std_specs::convert::FromSpecImpl<Date> for CBOR {
    open spec fn obeys_from_spec() -> bool { true }
    open spec fn from_spec(x: Date) -> Self { date_cbor(x) }
}
impl From<Date> for CBOR {
    #[verifier::external_body]
    fn from(x: Date) -> Self { unimplemented!() }
}
impl vstd::std_specs::convert::TryFromSpecImpl<CBOR> for Date {
    open spec fn obeys_try_from_spec() -> bool { false }
    uninterp spec fn try_from_spec(c: CBOR) -> Result<Date, Error>;
}
impl TryFrom<CBOR> for Date {
    type Error = Error;
    // [A-date-codec] decoding inverts encoding: Ok(d) exactly for the CBOR of a date d
    #[verifier::external_body]
    fn try_from(c: CBOR) -> (r: Result<Date, Error>)
        ensures r matches Ok(d) ==> date_cbor(d) == c, (exists|d: Date| date_cbor(d) == c) ==> r is Ok
    { unimplemented!() }
}

// ============================================================================ ARID (bc-components) and tagged-value helpers of dcbor
#[verifier::external_body]
#[derive(Debug)]
pub struct ARID { _p: () }
impl Clone for ARID {
    #[verifier::external_body]
    fn clone(&self) -> (r: Self) ensures r == *self { unimplemented!() }
}
impl Copy for ARID { }
pub uninterp spec fn arid_cbor(x: ARID) -> CBOR;
// [A-arid-codec-shape] an ARID's CBOR is tagged #6.40012 (bc-components `impl CBORTaggedEncodable for ARID`)
pub broadcast axiom fn axiom_arid_cbor_shape(x: ARID)
    ensures *(#[trigger] arid_cbor(x)).0 is Tagged && arid_cbor(x).s_tag() == tags::TAG_ARID;
// [A-arid-codec-inj] the CBOR determines the ARID (decoding is a function)
pub broadcast axiom fn axiom_arid_cbor_inj(a: ARID, b: ARID)
    requires #[trigger] arid_cbor(a) == #[trigger] arid_cbor(b)
    ensures a == b;
impl vstd::std_specs::convert::FromSpecImpl<ARID> for CBOR {
    open spec fn obeys_from_spec() -> bool { true }
    open spec fn from_spec(x: ARID) -> Self { arid_cbor(x) }
}
impl From<ARID> for CBOR {
    #[verifier::external_body]
    fn from(x: ARID) -> Self { unimplemented!() }
}

impl vstd::std_specs::convert::TryFromSpecImpl<CBOR> for ARID {
    open spec fn obeys_try_from_spec() -> bool { false }
    uninterp spec fn try_from_spec(c: CBOR) -> Result<ARID, Error>;
}
impl TryFrom<CBOR> for ARID {
    type Error = Error;
    // [A-arid-codec] decoding inverts encoding: Ok(a) exactly for the CBOR of an ARID a
    #[verifier::external_body]
    fn try_from(c: CBOR) -> (r: Result<ARID, Error>)
        ensures r matches Ok(a) ==> arid_cbor(a) == c, (exists|a: ARID| arid_cbor(a) == c) ==> r is Ok
    { unimplemented!() }
}
impl CBOR {
    // [A-try-into-tagged-value] Ok((tag, item)) iff the item is Tagged(tag, item)
    #[verifier::external_body]
    pub fn try_into_tagged_value(self) -> (r: Result<(Tag, CBOR)>)
        ensures
            *self.0 is Tagged ==> (r matches Ok(p) && p.0.value == self.s_tag() && p.1 == self.s_inner()),
            !(*self.0 is Tagged) ==> r is Err,
    { unimplemented!() }
    // [A-try-into-expected-tagged-value] Ok(item) iff the item is Tagged(tag, item)
    #[verifier::external_body]
    pub fn try_into_expected_tagged_value(self, tag: u64) -> (r: Result<CBOR>)
        ensures
            (*self.0 is Tagged && self.s_tag() == tag) ==> r == Ok::<CBOR, Error>(self.s_inner()),
            !(*self.0 is Tagged && self.s_tag() == tag) ==> r is Err,
    { unimplemented!() }
}
