#!/bin/bash
# developer helper: thorough tier of every claimed check, one after the other (separate build directory)
cd /verif
export VERIF_BUILD=/verif/build_thorough
mkdir -p $VERIF_BUILD
for p in $(python3 -c "import json;print(' '.join(c['property_id'] for c in json.load(open('MANIFEST.json'))['checks']))"); do
  s=$(date +%s)
  out=$(./check $p --tier thorough 2>&1); c=$?
  echo "$p exit=$c $(( $(date +%s) - s ))s :: $(echo "$out" | grep -E 'VIOLATION|UNDECIDED|KNOWN' | head -3 | cut -c1-300) $(echo "$out" | tail -1 | cut -c1-200)"
done
