#!/usr/bin/env python3
"""Developer tool: robustness against HARMLESS edits.  Every neutral/<set>/neutral_k.diff is a behaviour-preserving edit of
/repo/src (made by a sub-agent that saw only the file names; the full test suite passes with it).  Each is applied to a
scratch copy of /repo/src and sent through the pipeline once; the outcome is what every check would print for it:
  ok         no new failing obligation (every check exits 0)
  undecided  generation / compile problem or failures only where annotations were lost (exit 2 for the properties touched)
  ALARM      a new failing obligation in a function whose annotations were all placed (some check would exit 1): a false alarm
usage: ./neutral_run.py [--jobs N] [set/neutral_k.diff ...]
"""
import sys, os, json, shutil, tempfile, subprocess, glob
from concurrent.futures import ProcessPoolExecutor
sys.path.insert(0, os.path.dirname(os.path.abspath(__file__)))
from vlib import pipeline as P, gen
from vlib.extract import ExtractError
from vlib.lexer import LexError

def fid(f):
    return (f["kind"], f["fn"], f["ob"], (f.get("site_text") or "")[:60])

def run_one(args):
    diff, base_fail = args
    scratch = tempfile.mkdtemp(prefix="verif_neutral_", dir="/var/tmp")
    try:
        shutil.copytree(os.path.join(P.REPO, "src"), os.path.join(scratch, "src"))
        a = subprocess.run(["patch", "-p1", "-s", "-d", scratch, "-i", diff], capture_output=True, text=True)
        if a.returncode != 0:
            return diff, "patch-failed", (a.stdout + a.stderr)[:200]
        try:
            em = P.build(repo_root=scratch)
        except (ExtractError, gen.GenError, LexError) as ex:
            return diff, "undecided", "generation: %s" % str(ex)[:200]
        path = os.path.join(scratch, "m.rs")
        open(path, "w").write("\n".join(em.lines))
        res = P.run_verus(path, multiple_errors=10, threads=8)
        an = P.analyse(res, em, path)
        if an.build_errors:
            return diff, "undecided", "does not compile: %s" % an.build_errors[0][:300].replace("\n", " ")
        deg = {d.split(": ")[0] for d in em.degraded if ": orphan: " not in d}
        fresh = [f for f in an.failures if fid(f) not in base_fail]
        hit = sorted({(f["ob"] or ("%s@%s" % (f["kind"], f["fn"]))) for f in fresh if f["fn"] not in deg})
        und = sorted({(f["ob"] or ("%s@%s" % (f["kind"], f["fn"]))) for f in fresh if f["fn"] in deg})
        if hit:
            return diff, "ALARM", "; ".join(hit[:4])
        if und:
            return diff, "undecided", "lost annotations: %s | %s" % ("; ".join(d for d in em.degraded if ": orphan: " not in d)[:200], "; ".join(und[:3]))
        return diff, "ok", "; ".join(em.degraded)[:200]
    except P.Undecided as ex:
        return diff, "undecided", str(ex)[:200]
    finally:
        shutil.rmtree(scratch, ignore_errors=True)

def main():
    argv = sys.argv[1:]
    jobs = 3
    if argv[:1] == ["--jobs"]:
        jobs = int(argv[1]); argv = argv[2:]
    here = os.path.dirname(os.path.abspath(__file__))
    diffs = [os.path.abspath(a) for a in argv] or sorted(glob.glob(os.path.join(here, "neutral", "*", "neutral_*.diff")))
    em0 = P.build()
    p0 = os.path.join(P.BUILD, "bcenv_neutral_base.rs")
    open(p0, "w").write("\n".join(em0.lines))
    base_fail = {fid(f) for f in P.analyse(P.run_verus(p0, multiple_errors=30), em0, p0).failures}
    counts = {}
    with ProcessPoolExecutor(max_workers=jobs) as ex:
        for diff, st, info in ex.map(run_one, [(d, base_fail) for d in diffs]):
            counts[st] = counts.get(st, 0) + 1
            print("%-10s %s  %s" % (st, os.path.relpath(diff, here), info), flush=True)
    print("total:", counts)

if __name__ == "__main__":
    main()
