#!/usr/bin/env python3
"""Developer tool (not a registered check): re-run the checks against every seeded change under seeded/<id>/.

For each seed a scratch copy of /repo/src is made under /var/tmp, the seed's patch.diff is applied THERE (never to /repo),
and `./check multi <props>` (one pipeline run, the decision of `./check <prop> --tier quick` for each property, no evidence
written) is run with VERIF_REPO / VERIF_BUILD pointing at the scratch copy, for the property the seed
breaks, the properties listed under "also" / "detected_by" in its meta.json, and any given with --extra.  The outcome per
property (exit code and the first VIOLATION / UNDECIDED line) is written back to meta.json["detected_by"] with --write.

  ./seeds_run.py [--jobs N] [--only id,id] [--extra C16] [--write]

The checks also rewrite evidence/<id>.json while they run: re-run ./run_all.sh on the clean tree afterwards.
"""
import sys, os, json, shutil, subprocess, tempfile, re
from concurrent.futures import ThreadPoolExecutor

VERIF = os.path.dirname(os.path.abspath(__file__))
REPO = os.environ.get("VERIF_REPO", "/repo")

def props_of(meta, sid, extra):
    ps = [meta.get("property")] + list(meta.get("also", [])) + list((meta.get("detected_by") or {}).keys()) + extra
    out = []
    for p in ps:
        if p and p not in out:
            out.append(p)
    return out or [re.sub(r"[a-z]$", "", sid).upper()]

def run_seed(args):
    sid, extra = args
    d = os.path.join(VERIF, "seeded", sid)
    mp = os.path.join(d, "meta.json")
    meta = json.load(open(mp)) if os.path.exists(mp) else {}
    scratch = tempfile.mkdtemp(prefix="verif_seed_%s_" % sid, dir="/var/tmp")
    res = {}
    try:
        shutil.copytree(os.path.join(REPO, "src"), os.path.join(scratch, "src"))
        a = subprocess.run(["git", "apply", "--unsafe-paths", "--directory=" + scratch, os.path.join(d, "patch.diff")],
                           cwd="/", capture_output=True, text=True)
        if a.returncode != 0:
            a = subprocess.run(["patch", "-p1", "-s", "-d", scratch, "-i", os.path.join(d, "patch.diff")], capture_output=True, text=True)
            if a.returncode != 0:
                return sid, meta, {"_": "patch does not apply: %s" % (a.stderr or a.stdout)[:200]}
        env = dict(os.environ, VERIF_REPO=scratch, VERIF_BUILD=os.path.join(scratch, "build"))
        os.makedirs(env["VERIF_BUILD"], exist_ok=True)
        ps = props_of(meta, sid, extra)
        c = subprocess.run([os.path.join(VERIF, "check"), "multi", ",".join(ps)], cwd=VERIF, env=env, capture_output=True, text=True)
        for line in (c.stdout + c.stderr).splitlines():
            m0 = re.match(r"RESULT (C\d+) exit=(\d+) :: (.*)$", line)
            if not m0:
                continue
            p, code, first = m0.group(1), int(m0.group(2)), m0.group(3)
            m = re.search(r"obligations=(\S+)", first)
            if code == 1 and m:
                what = "VIOLATION " + m.group(1)[:300]
            elif code == 2:
                what = "undecided (exit 2): " + re.sub(r"^UNDECIDED property=\w+: ", "", first)[:300]
            elif code == 0:
                what = "quiet (exit 0)"
            else:
                what = "exit %d %s" % (code, first[:200])
            res[p] = what
        for p in ps:
            res.setdefault(p, "no result: %s" % (c.stdout + c.stderr)[-200:])
    finally:
        shutil.rmtree(scratch, ignore_errors=True)
    return sid, meta, res

def main():
    argv = sys.argv[1:]
    jobs, only, extra, write = 4, None, [], False
    while argv:
        a = argv.pop(0)
        if a == "--jobs": jobs = int(argv.pop(0))
        elif a == "--only": only = set(argv.pop(0).split(","))
        elif a == "--extra": extra = argv.pop(0).split(",")
        elif a == "--write": write = True
    ids = sorted(x for x in os.listdir(os.path.join(VERIF, "seeded")) if os.path.exists(os.path.join(VERIF, "seeded", x, "patch.diff")))
    if only:
        ids = [i for i in ids if i in only]
    tot = {"VIOLATION": 0, "undecided": 0, "quiet": 0, "other": 0}
    with ThreadPoolExecutor(max_workers=jobs) as ex:
        for sid, meta, res in ex.map(run_seed, [(i, extra) for i in ids]):
            own = meta.get("property") or re.sub(r"[a-z]$", "", sid).upper()
            r0 = res.get(own, res.get("_", "?"))
            k = "VIOLATION" if r0.startswith("VIOLATION") else "undecided" if r0.startswith("undecided") else "quiet" if r0.startswith("quiet") else "other"
            tot[k] += 1
            print("== %s [%s] %s" % (sid, own, r0[:160]), flush=True)
            for p, w in res.items():
                if p != own:
                    print("     %s: %s" % (p, w[:140]), flush=True)
            if write and "_" not in res:
                meta.setdefault("property", own)
                meta["detected_by"] = res
                json.dump(meta, open(os.path.join(VERIF, "seeded", sid, "meta.json"), "w"), indent=1)
    print("own property over %d seeds: %s" % (len(ids), tot))
    for f in os.listdir(os.path.join(VERIF, "replays")):
        if f.endswith(".json"):
            os.remove(os.path.join(VERIF, "replays", f))

if __name__ == "__main__":
    main()
