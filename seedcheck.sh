#!/bin/bash
# usage: seedcheck.sh <patch.diff> <PROP>...   applies the patch to /repo, runs the checks, reverts
patch=$1; shift
cd /repo || exit 3
if [ -n "$(git status --porcelain -- src)" ]; then echo "/repo/src not clean"; exit 3; fi
git apply --check $patch || { echo "patch does not apply"; exit 4; }
git apply $patch
cd /verif
for p in "$@"; do
  out=$(./check $p --tier quick 2>&1); c=$?
  echo "$p exit=$c :: $(echo "$out" | grep -E 'VIOLATION|UNDECIDED' | head -3 | cut -c1-500)"
done
git -C /repo checkout -- . 
rm -f /verif/replays/*.json
