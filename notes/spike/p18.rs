use vstd::prelude::*;
use std::rc::Rc;
verus! {
#[derive(Debug)]
pub struct Error { _p: () }
pub type Result<T> = std::result::Result<T, Error>;
pub struct Tag { pub v: u64 }
impl Tag { pub fn value(&self) -> (r: u64) ensures r == self.v { self.v } }
pub struct CBOR(pub Rc<CBORCase>);
pub enum CBORCase { Unsigned(u64), ByteString(Vec<u8>), Array(Vec<CBOR>), Tagged(Tag, CBOR) }
impl Clone for CBOR {
    #[verifier::external_body]
    fn clone(&self) -> (r: Self) ensures r == *self { unimplemented!() }
}
impl CBOR {
    pub fn as_case(&self) -> (r: &CBORCase) ensures *r == *self.0 { &self.0 }
}
pub struct Env { pub n: u64, pub kids: Vec<Env> }
#[verifier::external_body]
fn mkerr() -> Error { unimplemented!() }

pub fn dec(cbor: CBOR) -> (r: Result<Env>)
    decreases cbor
{
    match cbor.as_case() {
        CBORCase::Tagged(tag, item) => {
            match tag.value() {
                200 => {
                    let inner = dec(item.clone())?;
                    Ok(Env { n: 1, kids: vec![inner] })
                },
                _ => Err(mkerr()),
            }
        }
        CBORCase::Array(elements) => {
            if elements.len() < 2 {
                return Err(mkerr());
            }
            let subject = dec(elements[0].clone())?;
            let mut assertions: Vec<Env> = Vec::new();
            for __x in __it: elements[1..].iter()
                invariant *cbor.0 matches CBORCase::Array(es) && es == *elements,
            {
                proof { assert(decreases_to!(cbor => *elements)); let k = __it.index@; assert(__it.seq().len() == elements@.len() - 1); assert(*__it.seq()[k] == elements@[k + 1]); assert(__x == __it.seq()[k]); assert(*__x == elements@[k + 1]); assert(decreases_to!(*elements => elements@[k+1])); }
                assertions.push(dec(__x.clone())?);
            }
            Ok(Env { n: 2, kids: assertions })
        }
        CBORCase::Unsigned(value) => Ok(Env { n: *value, kids: Vec::new() }),
        _ => Err(mkerr()),
    }
}
}
fn main() {}
