use vstd::prelude::*;
verus! {
pub assume_specification<'a, T, P> [<std::slice::Iter<'a, T> as std::iter::Iterator>::any] (it: &mut std::slice::Iter<'a, T>, p: P) -> (r: bool)
    where P: FnMut(&'a T) -> bool, std::slice::Iter<'a, T>: Sized
    ensures true;
pub fn f2(v: &Vec<u64>, d: u64) -> (r: bool) 
{
    let b = v.iter().any(|x: &u64| -> (r: bool) ensures r == (*x == d) { *x == d });
    b
}
}
fn main() {}
