use vstd::prelude::*;
use std::rc::Rc as RefCounted;
use std::collections::HashSet;
use vstd::std_specs::iter::IteratorSpec;

verus! {
pub mod deps {
use super::*;

// ---- std::borrow::Cow stand-in
pub enum Cow<'a, T> { Borrowed(&'a T), Owned(T) }
impl<'a, T: View> View for Cow<'a, T> {
    type V = T::V;
    open spec fn view(&self) -> T::V { match self { Cow::Borrowed(b) => b@, Cow::Owned(o) => o@ } }
}
impl<'a, T: Clone + View> Cow<'a, T> {
    #[verifier::external_body]
    pub fn into_owned(self) -> (r: T) ensures r@ == self@ { unimplemented!() }
}
impl<'a, T: View + PartialEq> PartialEq for Cow<'a, T> {
    #[verifier::external_body]
    fn eq(&self, other: &Self) -> (r: bool) ensures r == (self@ == other@) { unimplemented!() }
}

// ---- bc_components::Digest stand-in
#[derive(Debug)]
pub struct Digest { pub data: [u8; 32] }
impl View for Digest {
    type V = Seq<u8>;
    open spec fn view(&self) -> Seq<u8> { self.data@ }
}
impl Clone for Digest {
    #[verifier::external_body]
    fn clone(&self) -> (r: Self) ensures r == *self { unimplemented!() }
}
impl PartialEq for Digest {
    #[verifier::external_body]
    fn eq(&self, other: &Self) -> (r: bool) ensures r == (self@ == other@) { unimplemented!() }
}
impl Eq for Digest {}
impl std::hash::Hash for Digest {
    #[verifier::external_body]
    fn hash<H: std::hash::Hasher>(&self, state: &mut H) { unimplemented!() }
}
pub uninterp spec fn sha256(s: Seq<u8>) -> Seq<u8>;
pub open spec fn concat_digests(ds: Seq<Digest>) -> Seq<u8>
    decreases ds.len()
{
    if ds.len() == 0 { Seq::empty() } else { concat_digests(ds.drop_last()) + ds.last()@ }
}
pub broadcast proof fn lemma_concat_one(ds: Seq<Digest>)
    requires ds.len() == 1
    ensures #[trigger] concat_digests(ds) == ds[0]@
{
    reveal_with_fuel(concat_digests, 2);
    assert(concat_digests(ds.drop_last()) == Seq::<u8>::empty());
    assert(Seq::<u8>::empty() + ds[0]@ == ds[0]@);
}
pub broadcast proof fn lemma_concat_two(ds: Seq<Digest>)
    requires ds.len() == 2
    ensures #[trigger] concat_digests(ds) == ds[0]@ + ds[1]@
{
    reveal_with_fuel(concat_digests, 3);
    assert(ds.drop_last().drop_last().len() == 0);
    assert(Seq::<u8>::empty() + ds[0]@ == ds[0]@);
}
impl Digest {
    #[verifier::external_body]
    pub fn from_digests(ds: &[Digest]) -> (r: Digest)
        ensures r@ == sha256(concat_digests(ds@))
    { unimplemented!() }
    #[verifier::external_body]
    pub fn from_image(image: Vec<u8>) -> (r: Digest)
        ensures r@ == sha256(image@)
    { unimplemented!() }
}
pub trait DigestProvider {
    spec fn digest_spec(&self) -> Seq<u8>;
    fn digest(&self) -> (r: Cow<'_, Digest>) ensures r@ == self.digest_spec();
}

// ---- anyhow stand-in
#[derive(Debug)]
pub struct Error { _p: () }
pub type Result<T> = std::result::Result<T, Error>;
#[derive(Debug)]
pub enum EnvelopeError { InvalidFormat, NotWrapped, InvalidDigest, MissingDigest, AlreadyElided, AlreadyEncrypted }
impl vstd::std_specs::convert::FromSpecImpl<EnvelopeError> for Error {
    open spec fn obeys_from_spec() -> bool { false }
    uninterp spec fn from_spec(e: EnvelopeError) -> Self;
}
impl From<EnvelopeError> for Error {
    #[verifier::external_body]
    fn from(e: EnvelopeError) -> Self { unimplemented!() }
}

// ---- dcbor::CBOR stand-in
#[verifier::external_body]
#[derive(Debug)]
pub struct CBOR { _p: () }
impl CBOR {
    pub uninterp spec fn enc(&self) -> Seq<u8>;
    #[verifier::external_body]
    pub fn to_cbor_data(&self) -> (r: Vec<u8>) ensures r@ == self.enc() { unimplemented!() }
}
impl Clone for CBOR {
    #[verifier::external_body]
    fn clone(&self) -> (r: Self) ensures r == *self { unimplemented!() }
}

// ordering on digests: lexicographic on bytes, abstracted as uninterpreted total order
pub uninterp spec fn dlt(a: Seq<u8>, b: Seq<u8>) -> bool;   // strict less-than
pub open spec fn dle(a: Seq<u8>, b: Seq<u8>) -> bool { dlt(a,b) || a == b }
impl<'a> Cow<'a, Digest> {
    #[verifier::external_body]
    pub fn cmp(&self, other: &Self) -> (r: std::cmp::Ordering)
        ensures (r == std::cmp::Ordering::Less) == dlt(self@, other@),
                (r == std::cmp::Ordering::Equal) == (self@ == other@),
                (r == std::cmp::Ordering::Greater) == dlt(other@, self@),
    { unimplemented!() }
}

// ---- KnownValue / EncryptedMessage / Compressed stand-ins
#[derive(Debug)]
pub struct EncryptedMessage { pub aad_digest: Option<Digest>, pub ct: Vec<u8> }
impl Clone for EncryptedMessage {
    #[verifier::external_body]
    fn clone(&self) -> (r: Self) ensures r == *self { unimplemented!() }
}
impl EncryptedMessage {
    pub fn has_digest(&self) -> (r: bool) ensures r == self.aad_digest.is_some() { self.aad_digest.is_some() }
}
#[derive(Debug)]
pub struct Compressed { pub digest: Option<Digest>, pub data: Vec<u8> }
impl Clone for Compressed {
    #[verifier::external_body]
    fn clone(&self) -> (r: Self) ensures r == *self { unimplemented!() }
}
impl Compressed {
    #[verifier::external_body]
    pub fn from_uncompressed_data(data: Vec<u8>, digest: Option<Digest>) -> (r: Compressed)
        ensures r.digest == digest, digest matches Some(d) ==> r.digest_d() == d
    { unimplemented!() }
    pub fn has_digest(&self) -> (r: bool) ensures r == self.digest.is_some() { self.digest.is_some() }
}
pub uninterp spec fn default_digest() -> Seq<u8>;
impl EncryptedMessage { pub uninterp spec fn digest_d(&self) -> Digest; }
impl Compressed { pub uninterp spec fn digest_d(&self) -> Digest; }
impl DigestProvider for EncryptedMessage {
    open spec fn digest_spec(&self) -> Seq<u8> { self.digest_d()@ }
    #[verifier::external_body]
    fn digest(&self) -> (r: Cow<'_, Digest>) { unimplemented!() }
}
impl DigestProvider for Compressed {
    open spec fn digest_spec(&self) -> Seq<u8> { self.digest_d()@ }
    #[verifier::external_body]
    fn digest(&self) -> (r: Cow<'_, Digest>) { unimplemented!() }
}

// ---- std assumed specs
use std::cmp::Ordering;
pub open spec fn sorted_by_closure<T, F: FnMut(&T, &T) -> Ordering>(s: Seq<T>, f: F) -> bool {
    forall|i: int, j: int| #![trigger s[i], s[j]] 0 <= i < j < s.len() ==>
        (call_ensures(f, (&s[i], &s[j]), Ordering::Less) || call_ensures(f, (&s[i], &s[j]), Ordering::Equal))
}
pub assume_specification<T, F> [<[T]>::sort_by] (s: &mut [T], f: F)
    where F: FnMut(&T, &T) -> Ordering
    requires forall|a: &T, b: &T| call_requires(f, (a, b)),
    ensures
        final(s)@.to_multiset() == old(s)@.to_multiset(),
        final(s)@.len() == old(s)@.len(),
        sorted_by_closure(final(s)@, f);

pub assume_specification<'a, T, P> [<std::slice::Iter<'a, T> as std::iter::Iterator>::position] (it: &mut std::slice::Iter<'a, T>, p: P) -> (r: Option<usize>)
    where P: FnMut(&'a T) -> bool, std::slice::Iter<'a, T>: Sized
    requires forall|a: &T| call_requires(p, (a,)),
    ensures
        match r {
            Some(i) => i < old(it).remaining().len() && call_ensures(p, (old(it).remaining()[i as int],), true)
                && forall|j: int| 0 <= j < i ==> call_ensures(p, (#[trigger] old(it).remaining()[j],), false),
            None => forall|j: int| 0 <= j < old(it).remaining().len() ==> call_ensures(p, (#[trigger] old(it).remaining()[j],), false),
        };


pub struct SymmetricKey { pub k: [u8; 32] }
pub struct Nonce { pub n: [u8; 12] }
impl SymmetricKey {
    #[verifier::external_body]
    pub fn encrypt_with_digest(&self, plaintext: Vec<u8>, digest: Digest, nonce: Option<Nonce>) -> (r: EncryptedMessage)
        ensures r.aad_digest == Some(digest), r.digest_d() == digest
    { unimplemented!() }
}
} // mod deps
