use vstd::prelude::*;
use std::rc::Rc as RefCounted;
use std::collections::HashSet;
use vstd::std_specs::iter::IteratorSpec;

verus! {
pub mod deps {
use super::*;

// ---- std::borrow::Cow stand-in
pub enum Cow<'a, T> { Borrowed(&'a T), Owned(T) }
impl<'a, T: View> View for Cow<'a, T> {
    type V = T::V;
    open spec fn view(&self) -> T::V { match self { Cow::Borrowed(b) => b@, Cow::Owned(o) => o@ } }
}
impl<'a, T: Clone + View> Cow<'a, T> {
    #[verifier::external_body]
    pub fn into_owned(self) -> (r: T) ensures r@ == self@ { unimplemented!() }
}
impl<'a, T: View + PartialEq> PartialEq for Cow<'a, T> {
    #[verifier::external_body]
    fn eq(&self, other: &Self) -> (r: bool) ensures r == (self@ == other@) { unimplemented!() }
}

// ---- bc_components::Digest stand-in
#[derive(Debug)]
pub struct Digest { pub data: [u8; 32] }
impl View for Digest {
    type V = Seq<u8>;
    open spec fn view(&self) -> Seq<u8> { self.data@ }
}
impl Clone for Digest {
    #[verifier::external_body]
    fn clone(&self) -> (r: Self) ensures r == *self { unimplemented!() }
}
impl PartialEq for Digest {
    #[verifier::external_body]
    fn eq(&self, other: &Self) -> (r: bool) ensures r == (self@ == other@) { unimplemented!() }
}
impl Eq for Digest {}
impl std::hash::Hash for Digest {
    #[verifier::external_body]
    fn hash<H: std::hash::Hasher>(&self, state: &mut H) { unimplemented!() }
}
pub uninterp spec fn sha256(s: Seq<u8>) -> Seq<u8>;
pub open spec fn concat_digests(ds: Seq<Digest>) -> Seq<u8>
    decreases ds.len()
{
    if ds.len() == 0 { Seq::empty() } else { concat_digests(ds.drop_last()) + ds.last()@ }
}
pub broadcast proof fn lemma_concat_one(ds: Seq<Digest>)
    requires ds.len() == 1
    ensures #[trigger] concat_digests(ds) == ds[0]@
{
    reveal_with_fuel(concat_digests, 2);
    assert(concat_digests(ds.drop_last()) == Seq::<u8>::empty());
    assert(Seq::<u8>::empty() + ds[0]@ == ds[0]@);
}
pub broadcast proof fn lemma_concat_two(ds: Seq<Digest>)
    requires ds.len() == 2
    ensures #[trigger] concat_digests(ds) == ds[0]@ + ds[1]@
{
    reveal_with_fuel(concat_digests, 3);
    assert(ds.drop_last().drop_last().len() == 0);
    assert(Seq::<u8>::empty() + ds[0]@ == ds[0]@);
}
impl Digest {
    #[verifier::external_body]
    pub fn from_digests(ds: &[Digest]) -> (r: Digest)
        ensures r@ == sha256(concat_digests(ds@))
    { unimplemented!() }
    #[verifier::external_body]
    pub fn from_image(image: Vec<u8>) -> (r: Digest)
        ensures r@ == sha256(image@)
    { unimplemented!() }
}
pub trait DigestProvider {
    spec fn digest_spec(&self) -> Seq<u8>;
    fn digest(&self) -> (r: Cow<'_, Digest>) ensures r@ == self.digest_spec();
}

// ---- anyhow stand-in
#[derive(Debug)]
pub struct Error { _p: () }
pub type Result<T> = std::result::Result<T, Error>;
#[derive(Debug)]
pub enum EnvelopeError { InvalidFormat, NotWrapped, InvalidDigest, MissingDigest, AlreadyElided, AlreadyEncrypted }
impl vstd::std_specs::convert::FromSpecImpl<EnvelopeError> for Error {
    open spec fn obeys_from_spec() -> bool { false }
    uninterp spec fn from_spec(e: EnvelopeError) -> Self;
}
impl From<EnvelopeError> for Error {
    #[verifier::external_body]
    fn from(e: EnvelopeError) -> Self { unimplemented!() }
}

// ---- dcbor::CBOR stand-in
#[verifier::external_body]
#[derive(Debug)]
pub struct CBOR { _p: () }
impl CBOR {
    pub uninterp spec fn enc(&self) -> Seq<u8>;
    #[verifier::external_body]
    pub fn to_cbor_data(&self) -> (r: Vec<u8>) ensures r@ == self.enc() { unimplemented!() }
}
impl Clone for CBOR {
    #[verifier::external_body]
    fn clone(&self) -> (r: Self) ensures r == *self { unimplemented!() }
}

// ordering on digests: lexicographic on bytes, abstracted as uninterpreted total order
pub uninterp spec fn dlt(a: Seq<u8>, b: Seq<u8>) -> bool;   // strict less-than
pub open spec fn dle(a: Seq<u8>, b: Seq<u8>) -> bool { dlt(a,b) || a == b }
impl<'a> Cow<'a, Digest> {
    #[verifier::external_body]
    pub fn cmp(&self, other: &Self) -> (r: std::cmp::Ordering)
        ensures (r == std::cmp::Ordering::Less) == dlt(self@, other@),
                (r == std::cmp::Ordering::Equal) == (self@ == other@),
                (r == std::cmp::Ordering::Greater) == dlt(other@, self@),
    { unimplemented!() }
}

// ---- KnownValue / EncryptedMessage / Compressed stand-ins
#[derive(Debug)]
pub struct EncryptedMessage { pub aad_digest: Option<Digest>, pub ct: Vec<u8> }
impl Clone for EncryptedMessage {
    #[verifier::external_body]
    fn clone(&self) -> (r: Self) ensures r == *self { unimplemented!() }
}
impl EncryptedMessage {
    pub fn has_digest(&self) -> (r: bool) ensures r == self.aad_digest.is_some() { self.aad_digest.is_some() }
}
#[derive(Debug)]
pub struct Compressed { pub digest: Option<Digest>, pub data: Vec<u8> }
impl Clone for Compressed {
    #[verifier::external_body]
    fn clone(&self) -> (r: Self) ensures r == *self { unimplemented!() }
}
impl Compressed {
    #[verifier::external_body]
    pub fn from_uncompressed_data(data: Vec<u8>, digest: Option<Digest>) -> (r: Compressed)
        ensures r.digest == digest, digest matches Some(d) ==> r.digest_d() == d
    { unimplemented!() }
    pub fn has_digest(&self) -> (r: bool) ensures r == self.digest.is_some() { self.digest.is_some() }
}
pub uninterp spec fn default_digest() -> Seq<u8>;
impl EncryptedMessage { pub uninterp spec fn digest_d(&self) -> Digest; }
impl Compressed { pub uninterp spec fn digest_d(&self) -> Digest; }
impl DigestProvider for EncryptedMessage {
    open spec fn digest_spec(&self) -> Seq<u8> { self.digest_d()@ }
    #[verifier::external_body]
    fn digest(&self) -> (r: Cow<'_, Digest>) { unimplemented!() }
}
impl DigestProvider for Compressed {
    open spec fn digest_spec(&self) -> Seq<u8> { self.digest_d()@ }
    #[verifier::external_body]
    fn digest(&self) -> (r: Cow<'_, Digest>) { unimplemented!() }
}

// ---- std assumed specs
use std::cmp::Ordering;
pub open spec fn sorted_by_closure<T, F: FnMut(&T, &T) -> Ordering>(s: Seq<T>, f: F) -> bool {
    forall|i: int, j: int| #![trigger s[i], s[j]] 0 <= i < j < s.len() ==>
        (call_ensures(f, (&s[i], &s[j]), Ordering::Less) || call_ensures(f, (&s[i], &s[j]), Ordering::Equal))
}
pub assume_specification<T, F> [<[T]>::sort_by] (s: &mut [T], f: F)
    where F: FnMut(&T, &T) -> Ordering
    requires forall|a: &T, b: &T| call_requires(f, (a, b)),
    ensures
        final(s)@.to_multiset() == old(s)@.to_multiset(),
        final(s)@.len() == old(s)@.len(),
        sorted_by_closure(final(s)@, f);

pub assume_specification<'a, T, P> [<std::slice::Iter<'a, T> as std::iter::Iterator>::position] (it: &mut std::slice::Iter<'a, T>, p: P) -> (r: Option<usize>)
    where P: FnMut(&'a T) -> bool, std::slice::Iter<'a, T>: Sized
    requires forall|a: &T| call_requires(p, (a,)),
    ensures
        match r {
            Some(i) => i < old(it).remaining().len() && call_ensures(p, (old(it).remaining()[i as int],), true)
                && forall|j: int| 0 <= j < i ==> call_ensures(p, (#[trigger] old(it).remaining()[j],), false),
            None => forall|j: int| 0 <= j < old(it).remaining().len() ==> call_ensures(p, (#[trigger] old(it).remaining()[j],), false),
        };


pub struct SymmetricKey { pub k: [u8; 32] }
pub struct Nonce { pub n: [u8; 12] }
impl SymmetricKey {
    #[verifier::external_body]
    pub fn encrypt_with_digest(&self, plaintext: Vec<u8>, digest: Digest, nonce: Option<Nonce>) -> (r: EncryptedMessage)
        ensures r.aad_digest == Some(digest), r.digest_d() == digest
    { unimplemented!() }
}
} // mod deps


macro_rules! bail { ($e:expr) => { return Err(Error::from($e)) } }
pub mod extracted {
use super::*;
use super::deps::*;
use std::cmp::Ordering;
broadcast use lemma_concat_one, lemma_concat_two;

#[derive(Debug)]
pub struct Envelope(pub RefCounted<EnvelopeCase>);
impl Clone for Envelope {
    #[verifier::external_body]
    fn clone(&self) -> (r: Self) ensures r == *self { unimplemented!() }
}
#[derive(Debug)]
pub enum EnvelopeCase {
    Node { subject: Envelope, assertions: Vec<Envelope>, digest: Digest },
    Leaf { cbor: CBOR, digest: Digest },
    Wrapped { envelope: Envelope, digest: Digest },
    Assertion(Assertion),
    Elided(Digest),
    KnownValue { value: KnownValue, digest: Digest },
    Encrypted(EncryptedMessage),
    Compressed(Compressed),
}
#[derive(Debug)]
pub struct KnownValue { pub value: u64 }
pub enum ObscureAction { Elide, Encrypt(SymmetricKey), Compress }

#[derive(Debug)]
pub struct Assertion {
    pub predicate: Envelope,
    pub object: Envelope,
    pub digest: Digest,
}
impl Clone for Assertion {
    #[verifier::external_body]
    fn clone(&self) -> (r: Self) ensures r == *self { unimplemented!() }
}
impl vstd::std_specs::convert::FromSpecImpl<EnvelopeCase> for Envelope {
    open spec fn obeys_from_spec() -> bool { true }
    open spec fn from_spec(case: EnvelopeCase) -> Self { Envelope(RefCounted::new(case)) }
}
pub trait EnvelopeEncodable: Sized {
    spec fn enc_wf(self) -> bool;
    spec fn enc_spec(self) -> Envelope;
    fn into_envelope(self) -> (r: Envelope) requires self.enc_wf() ensures r.wf(), r == self.enc_spec();
}
impl EnvelopeEncodable for Envelope {
    open spec fn enc_wf(self) -> bool { self.wf() }
    open spec fn enc_spec(self) -> Envelope { self }
    fn into_envelope(self) -> (r: Envelope) { self }
}

// ---------- spec side (contracts file) ----------
pub uninterp spec fn kv_enc(v: u64) -> Seq<u8>;
pub open spec fn digests_of(es: Seq<Envelope>) -> Seq<Digest>
{
    Seq::new(es.len(), |i: int| es[i].sd_digest())
}
impl Envelope {
    pub open spec fn sd_digest(self) -> Digest {
        match *self.0 {
            EnvelopeCase::Node { subject, assertions, digest } => digest,
            EnvelopeCase::Leaf { cbor, digest } => digest,
            EnvelopeCase::Wrapped { envelope, digest } => digest,
            EnvelopeCase::Assertion(a) => a.digest,
            EnvelopeCase::Elided(digest) => digest,
            EnvelopeCase::KnownValue { value, digest } => digest,
            EnvelopeCase::Encrypted(m) => m.digest_d(),
            EnvelopeCase::Compressed(c) => c.digest_d(),
        }
    }
    pub open spec fn sd(self) -> Seq<u8> { self.sd_digest()@ }
    pub open spec fn wf(self) -> bool
        decreases self
    {
        match *self.0 {
            EnvelopeCase::Node { subject, assertions, digest } => {
                subject.wf()
                && assertions@.len() > 0
                && (forall|i: int| 0 <= i < assertions@.len() ==> (#[trigger] assertions@[i]).wf())
                && digest@ == sha256(subject.sd() + concat_digests(digests_of(assertions@)))
            },
            EnvelopeCase::Leaf { cbor, digest } => digest@ == sha256(cbor.enc()),
            EnvelopeCase::Wrapped { envelope, digest } => envelope.wf() && digest@ == sha256(envelope.sd()),
            EnvelopeCase::Assertion(a) => a.predicate.wf() && a.object.wf() && a.digest@ == sha256(a.predicate.sd() + a.object.sd()),
            EnvelopeCase::Elided(digest) => true,
            EnvelopeCase::KnownValue { value, digest } => digest@ == sha256(kv_enc(value.value)),
            EnvelopeCase::Encrypted(m) => m.aad_digest.is_some(),
            EnvelopeCase::Compressed(c) => c.digest.is_some(),
        }
    }
}
pub open spec fn sorted_by_digest(es: Seq<Envelope>) -> bool {
    forall|i: int, j: int| #![trigger es[i], es[j]] 0 <= i < j < es.len() ==> dle(es[i].sd(), es[j].sd())
}
impl Envelope {
    pub open spec fn node_assertions(self) -> Seq<Envelope> {
        match *self.0 { EnvelopeCase::Node { subject, assertions, digest } => assertions@, _ => Seq::empty() }
    }
    pub open spec fn node_subject(self) -> Envelope {
        match *self.0 { EnvelopeCase::Node { subject, assertions, digest } => subject, _ => self }
    }
}
pub proof fn lemma_concat_push(ds: Seq<Digest>, d: Digest)
    ensures concat_digests(ds.push(d)) == concat_digests(ds) + d@
{
    reveal_with_fuel(concat_digests, 2);
    assert(ds.push(d).drop_last() == ds);
}
pub proof fn lemma_concat_prepend(d: Digest, ds: Seq<Digest>)
    ensures concat_digests(seq![d] + ds) == d@ + concat_digests(ds)
    decreases ds.len()
{
    if ds.len() == 0 {
        assert(seq![d] + ds == seq![d]);
        lemma_concat_one(seq![d]);
        reveal_with_fuel(concat_digests, 1);
        assert(d@ + Seq::<u8>::empty() == d@);
    } else {
        let ds1 = ds.drop_last();
        lemma_concat_prepend(d, ds1);
        assert((seq![d] + ds).drop_last() == seq![d] + ds1);
        assert((seq![d] + ds).last() == ds.last());
        reveal_with_fuel(concat_digests, 2);
        assert((d@ + concat_digests(ds1)) + ds.last()@ == d@ + (concat_digests(ds1) + ds.last()@));
    }
}
pub proof fn lemma_node_digests(subject: Envelope, sorted: Seq<Envelope>, digests: Seq<Digest>)
    requires digests.len() == 1 + sorted.len(), digests[0]@ == subject.sd(),
        forall|k: int| 0 <= k < sorted.len() ==> (#[trigger] digests[k + 1])@ == sorted[k].sd(),
    ensures concat_digests(digests) == subject.sd() + concat_digests(digests_of(sorted))
{
    let tail = digests.subrange(1, digests.len() as int);
    assert(digests == seq![digests[0]] + tail);
    lemma_concat_prepend(digests[0], tail);
    lemma_concat_view_eq(tail, digests_of(sorted));
}
pub proof fn lemma_concat_view_eq(a: Seq<Digest>, b: Seq<Digest>)
    requires a.len() == b.len(), forall|k: int| 0 <= k < a.len() ==> (#[trigger] a[k])@ == b[k]@
    ensures concat_digests(a) == concat_digests(b)
    decreases a.len()
{
    reveal_with_fuel(concat_digests, 2);
    if a.len() > 0 {
        lemma_concat_view_eq(a.drop_last(), b.drop_last());
    }
}
pub proof fn lemma_multiset_wf(a: Seq<Envelope>, b: Seq<Envelope>)
    requires a.to_multiset() == b.to_multiset(), forall|i: int| 0 <= i < a.len() ==> (#[trigger] a[i]).wf()
    ensures forall|i: int| 0 <= i < b.len() ==> (#[trigger] b[i]).wf()
{
    assert forall|i: int| 0 <= i < b.len() implies (#[trigger] b[i]).wf() by {
        vstd::seq_lib::to_multiset_contains(b, b[i]); 
        assert(b.to_multiset().count(b[i]) > 0) by { b.to_multiset_ensures(); }
        a.to_multiset_ensures();
        assert(a.contains(b[i]));
    }
}
impl Assertion {
    pub open spec fn wf(self) -> bool {
        self.predicate.wf() && self.object.wf() && self.digest@ == sha256(self.predicate.sd() + self.object.sd())
    }
}

// ---------- extracted functions ----------
impl From<EnvelopeCase> for Envelope {

    fn from(case: EnvelopeCase) -> Self {
        Self(RefCounted::new(case))
    }
}
impl Envelope {
    pub fn case(&self) -> (r: &EnvelopeCase)
        ensures *r == *self.0
    {
        &self.0
    }
    pub fn new_elided(digest: Digest) -> (r: Self)
        ensures r.wf(), r.sd() == digest@, *r.0 == EnvelopeCase::Elided(digest)
    {
        EnvelopeCase::Elided(digest).into()
    }
    pub fn new_wrapped(envelope: Self) -> (r: Self)
        requires envelope.wf()
        ensures r.wf(), r.sd() == sha256(envelope.sd())
    {
        let digest = Digest::from_digests(&[envelope.digest().into_owned()]);
        (EnvelopeCase::Wrapped { envelope, digest }).into()
    }
    pub fn new_with_assertion(assertion: Assertion) -> (r: Self)
        requires assertion.wf()
        ensures r.wf(), r.sd() == assertion.digest@
    {
        EnvelopeCase::Assertion(assertion).into()
    }
    pub fn new_with_unchecked_assertions(subject: Self, unchecked_assertions: Vec<Self>) -> (r: Self)
        requires subject.wf(), unchecked_assertions@.len() > 0, forall|i: int| 0 <= i < unchecked_assertions@.len() ==> (#[trigger] unchecked_assertions@[i]).wf()
        ensures r.wf(), r.sd() == sha256(subject.sd() + concat_digests(digests_of(r.node_assertions()))), r.node_assertions().to_multiset() == unchecked_assertions@.to_multiset(), sorted_by_digest(r.node_assertions()), r.node_subject() == subject
    {
        assert!(!unchecked_assertions.is_empty());
        let mut sorted_assertions = unchecked_assertions;
        sorted_assertions.sort_by(|a: &Envelope, b: &Envelope| -> (o: Ordering) ensures (o == Ordering::Less) == dlt(a.sd(), b.sd()), (o == Ordering::Equal) == (a.sd() == b.sd()), (o == Ordering::Greater) == dlt(b.sd(), a.sd()) { a.digest().cmp(&b.digest()) });
        let mut digests = vec![subject.digest().into_owned()];
        for __x in __it: sorted_assertions.iter().map(|a: &Envelope| -> (d: Digest) ensures d@ == a.sd() { a.digest().into_owned() })
            invariant
                digests@.len() == 1 + __it.index@,
                digests@[0]@ == subject.sd(),
                forall|k: int| 0 <= k < __it.index@ ==> (#[trigger] digests@[k + 1])@ == sorted_assertions@[k].sd(),
        { digests.push(__x); }
        proof { lemma_node_digests(subject, sorted_assertions@, digests@); lemma_multiset_wf(unchecked_assertions@, sorted_assertions@); }
        let digest = Digest::from_digests(&digests);
        (EnvelopeCase::Node { subject, assertions: sorted_assertions, digest }).into()
    }
    pub fn wrap_envelope(&self) -> (r: Self)
        requires self.wf()
        ensures r.wf(), r.sd() == sha256(self.sd())
    {
        Self::new_wrapped(self.clone())
    }
    pub fn unwrap_envelope(&self) -> (r: Result<Self>)
        requires self.wf()
        ensures r matches Ok(e) ==> e.wf()
    {
        match self.subject().case() {
            EnvelopeCase::Wrapped { envelope, .. } => Ok(envelope.clone()),
            _ => bail!(EnvelopeError::NotWrapped),
        }
    }
    pub fn subject(&self) -> (r: Self)
        requires self.wf()
        ensures r.wf()
    {
        match self.case() {
            EnvelopeCase::Node { subject, .. } => subject.clone(),
            _ => self.clone(),
        }
    }
    pub fn assertions(&self) -> (r: Vec<Self>)
        requires self.wf()
        ensures forall|i: int| 0 <= i < r@.len() ==> (#[trigger] r@[i]).wf()
    {
        match self.case() {
            EnvelopeCase::Node { assertions, .. } => assertions.clone(),
            _ => vec![],
        }
    }
    pub fn elide(&self) -> (r: Self)
        requires self.wf()
        ensures r.wf(), r.sd() == self.sd()
    {
        match self.case() {
            EnvelopeCase::Elided(_) => self.clone(),
            _ => Self::new_elided(self.digest().into_owned())
        }
    }
    pub fn remove_assertion(&self, target: Self) -> (r: Self)
        requires self.wf(), target.wf()
        ensures r.wf()
    {
        let assertions = self.assertions();
        let target = target.digest();
        if let Some(index) = assertions.iter().position(|a| a.digest() == target) {
            let mut assertions = assertions.clone();
            assertions.remove(index);
            if assertions.is_empty() {
                self.subject()
            } else {
                Self::new_with_unchecked_assertions(self.subject(), assertions)
            }
        } else {
            self.clone()
        }
    }
    pub fn new_with_encrypted(encrypted_message: EncryptedMessage) -> (r: Result<Self>)
        ensures encrypted_message.aad_digest.is_some() ==> (r matches Ok(e) && e.wf() && e.sd() == encrypted_message.digest_d()@), !encrypted_message.aad_digest.is_some() ==> r is Err
    {
        if !encrypted_message.has_digest() {
            bail!(EnvelopeError::MissingDigest);
        }
        Ok(EnvelopeCase::Encrypted(encrypted_message).into())
    }
    pub fn new_with_compressed(compressed: Compressed) -> (r: Result<Self>)
        ensures compressed.digest.is_some() ==> (r matches Ok(e) && e.wf() && e.sd() == compressed.digest_d()@), !compressed.digest.is_some() ==> r is Err
    {
        if !compressed.has_digest() {
            bail!(EnvelopeError::MissingDigest);
        }
        Ok(EnvelopeCase::Compressed(compressed).into())
    }
    pub fn compress(&self) -> (r: Result<Self>)
        requires self.wf()
        ensures (r is Err) == (*self.0 is Encrypted || *self.0 is Elided), r matches Ok(e) ==> e.wf() && e.sd() == self.sd()
    {
        match self.case() {
            EnvelopeCase::Compressed(_) => Ok(self.clone()),
            EnvelopeCase::Encrypted(_) => bail!(EnvelopeError::AlreadyEncrypted),
            EnvelopeCase::Elided(_) => bail!(EnvelopeError::AlreadyElided),
            _ => {
                let compressed = Compressed::from_uncompressed_data(self.tagged_cbor().to_cbor_data(), Some(self.digest().into_owned()));
                Ok(compressed.try_into()?)
            },
        }
    }
    #[verifier::external_body]
    pub fn tagged_cbor(&self) -> (r: CBOR) { unimplemented!() }

    pub fn elide_set_with_action(&self, target: &HashSet<Digest>, is_revealing: bool, action: &ObscureAction) -> (r: Self)
        requires self.wf()
        ensures r.wf(), r.sd() == self.sd()
        decreases self
    {
        let self_digest = self.digest().into_owned();
        if target.contains(&self_digest) != is_revealing {
            match action {
                ObscureAction::Elide => self.elide(),
                ObscureAction::Encrypt(key) => {
                    let message = key.encrypt_with_digest(self.tagged_cbor().to_cbor_data(), self_digest, None::<Nonce>);
                    Self::new_with_encrypted(message).unwrap()
                },
                ObscureAction::Compress => self.compress().unwrap(),
            }
        } else if let EnvelopeCase::Assertion(assertion) = self.case() {
            let predicate = assertion.predicate().elide_set_with_action(target, is_revealing, action);
            let object = assertion.object().elide_set_with_action(target, is_revealing, action);
            let elided_assertion = Assertion::new(predicate, object);
            assert!(&elided_assertion == assertion);
            Self::new_with_assertion(elided_assertion)
        } else if let EnvelopeCase::Node { subject, assertions, ..} = self.case() {
            let elided_subject = subject.elide_set_with_action(target, is_revealing, action);
            assert!(elided_subject.digest() == subject.digest());
            let elided_assertions = assertions.iter().map(|assertion: &Envelope| -> (er: Envelope) requires assertion.wf(), decreases_to!(self => *assertion) ensures er.wf(), er.sd() == assertion.sd() {
                let elided_assertion = assertion.elide_set_with_action(target, is_revealing, action);
                assert!(elided_assertion.digest() == assertion.digest());
                elided_assertion
            }).collect();
            Self::new_with_unchecked_assertions(elided_subject, elided_assertions)
        } else if let EnvelopeCase::Wrapped { envelope, .. } = self.case() {
            let elided_envelope = envelope.elide_set_with_action(target, is_revealing, action);
            assert!(elided_envelope.digest() == envelope.digest());
            Self::new_wrapped(elided_envelope)
        } else {
            self.clone()
        }
    }
}
impl DigestProvider for Envelope {
    open spec fn digest_spec(&self) -> Seq<u8> { self.sd() }
    fn digest(&self) -> Cow<'_, Digest> {
        match self.case() {
            EnvelopeCase::Node { digest, .. } => Cow::Borrowed(digest),
            EnvelopeCase::Leaf { digest, .. } => Cow::Borrowed(digest),
            EnvelopeCase::Wrapped { digest, .. } => Cow::Borrowed(digest),
            EnvelopeCase::Assertion(assertion) => assertion.digest(),
            EnvelopeCase::Elided(digest) => Cow::Borrowed(digest),
            EnvelopeCase::KnownValue { digest, .. } => Cow::Borrowed(digest),
            EnvelopeCase::Encrypted(encrypted_message) => encrypted_message.digest(),
            EnvelopeCase::Compressed(compressed) => compressed.digest(),
        }
    }
}
impl Assertion {
    pub fn new(predicate: impl EnvelopeEncodable, object: impl EnvelopeEncodable) -> (r: Self)
        requires predicate.enc_wf(), object.enc_wf()
        ensures r.wf(), r.predicate == predicate.enc_spec(), r.object == object.enc_spec()
    {
        let predicate = predicate.into_envelope();
        let object = object.into_envelope();
        let digest = Digest::from_digests(&[
            predicate.digest().into_owned(),
            object.digest().into_owned(),
        ]);
        Self {
            predicate,
            object,
            digest,
        }
    }
    pub fn predicate(&self) -> (r: Envelope)
        ensures r == self.predicate
    {
        self.predicate.clone()
    }
    pub fn object(&self) -> (r: Envelope)
        ensures r == self.object
    {
        self.object.clone()
    }
    pub fn digest_ref(&self) -> (r: &Digest)
        ensures *r == self.digest
    {
        &self.digest
    }
}
impl PartialEq for Assertion {
    fn eq(&self, other: &Self) -> (r: bool)
        ensures r == (self.digest@ == other.digest@)
    {
        self.digest_ref() == other.digest_ref()
    }
}
impl TryFrom<Compressed> for Envelope {
    type Error = Error;
    fn try_from(compressed: Compressed) -> (r: Result<Self>)
        ensures compressed.digest.is_some() ==> (r matches Ok(e) && e.wf() && e.sd() == compressed.digest_d()@), !compressed.digest.is_some() ==> r is Err
    {
        Envelope::new_with_compressed(compressed)
    }
}
impl DigestProvider for Assertion {
    open spec fn digest_spec(&self) -> Seq<u8> { self.digest@ }
    fn digest(&self) -> Cow<'_, Digest> {
        Cow::Borrowed(&self.digest)
    }
}
} // mod extracted
} // verus!
fn main() {}