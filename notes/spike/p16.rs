use vstd::prelude::*;
verus! {
pub trait Verifier { fn verify(&self, m: u64) -> bool; }
pub fn t(keys: &[&dyn Verifier], m: u64) -> (r: usize)
{
    let mut count = 0;
    for key in keys {
        if key.verify(m) { count += 1; }
    }
    count
}
}
fn main() {}
