use bc_envelope::prelude::*;
use bc_components::{DigestProvider, SymmetricKey};
use std::panic::catch_unwind;
use std::collections::HashSet;

fn main() {
    std::panic::set_hook(Box::new(|_| {}));
    // 1. object_for_predicate on salted assertion
    let e = Envelope::new("a").add_assertion_salted("k", "v", true);
    let r = catch_unwind(|| e.object_for_predicate("k").map(|x| x.format_flat()));
    println!("1 object_for_predicate(salted): {:?}", r.map_err(|_| "PANIC"));
    let r = catch_unwind(|| e.objects_for_predicate("k").len());
    println!("1b objects_for_predicate(salted): {:?}", r.map_err(|_| "PANIC"));
    // 2. Compress action on an already elided element
    let e = Envelope::new("a").add_assertion("k", "v");
    let a = e.assertion_with_predicate("k").unwrap();
    let el = e.elide_removing_target(&a);
    let mut t = HashSet::new(); t.insert(a.digest().into_owned());
    let r = catch_unwind(|| el.elide_removing_set_with_action(&t, &ObscureAction::Compress).format_flat());
    println!("2 compress-action on elided: {:?}", r.map_err(|_| "PANIC"));
    // 3. decoder accepts out-of-order / duplicate assertions
    let e = Envelope::new("s").add_assertion("k1", "v1").add_assertion("k2", "v2");
    let cbor = e.tagged_cbor();
    let bytes = cbor.to_cbor_data();
    // build array with swapped assertions
    if let CBORCase::Tagged(tag, inner) = cbor.as_case() {
        if let CBORCase::Array(items) = inner.as_case() {
            let swapped = CBOR::to_tagged_value(tag.clone(), CBOR::from(vec![items[0].clone(), items[2].clone(), items[1].clone()]));
            let sb = swapped.to_cbor_data();
            let d = Envelope::try_from_cbor_data(sb.clone());
            match d { Ok(d) => println!("3 swapped order accepted: reencode_equal_input={} ", d.tagged_cbor().to_cbor_data() == sb), Err(e) => println!("3 swapped rejected: {e}") }
            let dup = CBOR::to_tagged_value(tag.clone(), CBOR::from(vec![items[0].clone(), items[1].clone(), items[1].clone()]));
            let db = dup.to_cbor_data();
            let d = Envelope::try_from_cbor_data(db.clone());
            match d { Ok(d) => println!("3b duplicate accepted: n_assertions={} reencode_equal_input={}", d.assertions().len(), d.tagged_cbor().to_cbor_data() == db), Err(e) => println!("3b dup rejected: {e}") }
        }
    }
    let _ = bytes;
    // 4. recipients() on decorated hasRecipient
    let e = Envelope::new("a").add_assertion_salted(known_values::HAS_RECIPIENT, "x", true);
    let r = catch_unwind(|| e.recipients().is_ok());
    println!("4 recipients(decorated): {:?}", r.map_err(|_| "PANIC"));
    // 5. response with one result and two errors
    let id = bc_components::ARID::new();
    let env: Envelope = Response::new_success(id).with_result("ok").into();
    let env = env.add_assertion(known_values::ERROR, "e1").add_assertion(known_values::ERROR, "e2");
    println!("5 response with result + 2 errors parses: {}", Response::try_from(env).is_ok());
    // 6. encrypt action on elided
    let key = SymmetricKey::new();
    let r = catch_unwind(|| el.elide_removing_set_with_action(&t, &ObscureAction::Encrypt(key.clone())).format_flat());
    println!("6 encrypt-action on elided: {:?}", r.map_err(|_| "PANIC"));
}
