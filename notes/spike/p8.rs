use vstd::prelude::*;
verus! {
pub fn g(v: &Vec<u64>) -> (r: Vec<u64>) 
    requires forall|i: int| 0 <= i < v@.len() ==> v@[i] < 100
    ensures r@.len() == v@.len(), forall|i: int| 0 <= i < v@.len() ==> r@[i] == v@[i] + 1
{
    let c: Vec<u64> = v.iter().map(|x: &u64| -> (r: u64) requires *x < 100 ensures r == *x + 1 { *x + 1 }).collect();
    c
}
}
fn main() {}
