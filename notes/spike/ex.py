import re,sys
def lex_skip(s,i):
    # returns index after a string/char/comment token starting at i, or i if none
    if s.startswith('//',i):
        j=s.find('\n',i); return len(s) if j<0 else j
    if s.startswith('/*',i):
        d=1;j=i+2
        while d>0:
            if s.startswith('/*',j): d+=1;j+=2
            elif s.startswith('*/',j): d-=1;j+=2
            else: j+=1
        return j
    if s[i]=='"':
        j=i+1
        while s[j]!='"':
            if s[j]=='\\': j+=1
            j+=1
        return j+1
    if s[i]=='r' and re.match(r'r#*"',s[i:]):
        m=re.match(r'r(#*)"',s[i:]); h=m.group(1)
        j=s.find('"'+h,i+len(m.group(0))); return j+1+len(h)
    if s[i]=="'":
        m=re.match(r"'(\\.[^']*|[^'\\])'",s[i:])
        if m: return i+len(m.group(0))
    return i
def find_fn(src,name,nth=0):
    # find "fn name" occurrences outside comments/strings
    i=0;cnt=0
    while i<len(src):
        j=lex_skip(src,i)
        if j!=i: i=j;continue
        m=re.match(r'fn\s+'+re.escape(name)+r'\b',src[i:])
        if m and (i==0 or not (src[i-1].isalnum() or src[i-1]=='_')):
            if cnt==nth:
                # start of item: go back to line start
                ls=src.rfind('\n',0,i)+1
                # find body open brace
                k=i;depth=0
                while True:
                    j=lex_skip(src,k)
                    if j!=k:k=j;continue
                    if src[k]=='{':break
                    k+=1
                d=0
                while True:
                    j=lex_skip(src,k)
                    if j!=k:k=j;continue
                    if src[k]=='{':d+=1
                    elif src[k]=='}':
                        d-=1
                        if d==0:break
                    k+=1
                return src[ls:k+1]
            cnt+=1
        i+=1
    raise KeyError(name)
def strip_doc(t):
    return '\n'.join(l for l in t.split('\n') if not re.match(r'\s*///',l))
if __name__=='__main__':
    src=open(sys.argv[1]).read()
    print(strip_doc(find_fn(src,sys.argv[2],int(sys.argv[3]) if len(sys.argv)>3 else 0)))
