use vstd::prelude::*;
verus! {
pub fn t(elements: &Vec<u64>) 
    requires elements@.len() >= 2
{
    let s = &elements[1..];
    assert(s@ == elements@.subrange(1, elements@.len() as int));
    let mut n: usize = 0;
    for x in it: s.iter()
        invariant n == it.index@, it.seq().len() == s@.len(), forall|k: int| 0 <= k < s@.len() ==> *it.seq()[k] == s@[k]
    {
        assert(*x == s@[it.index@ as int]);
        n = n + 1;
    }
}
}
fn main() {}
