use vstd::prelude::*;
verus! {
pub type Visitor<'a, Parent> = dyn Fn(u64, usize, Option<Parent>) -> Option<Parent> + 'a;
pub fn w<Parent: Clone>(x: u64, level: usize, parent: Option<Parent>, visit: &Visitor<'_, Parent>)
    requires forall|a: u64, l: usize, p: Option<Parent>| call_requires(visit, (a, l, p)),
{
    let parent = visit(x, level, parent);
}
}
fn main() {}
