use vstd::prelude::*;
use std::cmp::Ordering;
verus! {
pub open spec fn sorted_by_closure<T, F: FnMut(&T, &T) -> Ordering>(s: Seq<T>, f: F) -> bool {
    forall|i: int, j: int| #![trigger s[i], s[j]] 0 <= i < j < s.len() ==>
        (call_ensures(f, (&s[i], &s[j]), Ordering::Less) || call_ensures(f, (&s[i], &s[j]), Ordering::Equal))
}
pub assume_specification<T, F> [<[T]>::sort_by] (s: &mut [T], f: F)
    where F: FnMut(&T, &T) -> Ordering
    requires forall|a: &T, b: &T| call_requires(f, (a, b)),
    ensures
        final(s)@.to_multiset() == old(s)@.to_multiset(),
        sorted_by_closure(final(s)@, f);

pub fn t(v: Vec<u64>) -> (r: Vec<u64>)
    ensures r@.to_multiset() == v@.to_multiset(),
        forall|i: int, j: int| #![trigger r@[i], r@[j]] 0 <= i < j < r@.len() ==> r@[i] <= r@[j]
{
    let mut w = v;
    w.sort_by(|a: &u64, b: &u64| -> (o: Ordering) ensures (o == Ordering::Less) == (*a < *b), (o == Ordering::Equal) == (*a == *b) { a.cmp(b) });
    w
}
}
fn main() {}
