use bc_envelope::prelude::*;
use bc_components::{SignatureScheme, DigestProvider};
use bc_envelope::{SignatureMetadata, Signer};

fn main() {
    let (alice_priv, alice_pub) = SignatureScheme::Ed25519.keypair();
    let (bob_priv, bob_pub) = SignatureScheme::Ed25519.keypair();
    let base = Envelope::new("hello");

    // A. metadata wrapper WITHOUT an outer signature: inner signature by alice, metadata forged by anyone
    let inner_sig = Envelope::new(alice_priv.sign_with_options(&base.subject().digest().data() as &dyn AsRef<[u8]>, None).unwrap());
    let forged = inner_sig.add_assertion(known_values::NOTE, "forged note").wrap_envelope(); // no outer 'signed'
    let e = base.add_assertion(known_values::SIGNED, forged);
    match e.verify_signature_from_returning_metadata(&alice_pub) {
        Ok(m) => println!("A unsigned-metadata wrapper accepted, metadata = {}", m.format_flat()),
        Err(err) => println!("A rejected: {err}"),
    }

    // B. foreign wrapped signature (no outer sig) first, then a valid plain signature by bob
    let e2 = e.add_signature(&bob_priv);
    println!("B objects order: {:?}", e2.objects_for_predicate(known_values::SIGNED).iter().map(|o| o.subject().is_wrapped()).collect::<Vec<_>>());
    match e2.has_signature_from(&bob_pub) {
        Ok(b) => println!("B bob verified = {b}"),
        Err(err) => println!("B bob verification ERR: {err}"),
    }
    // also try several times since digest order decides which comes first
    let mut errs = 0; let mut oks = 0;
    for i in 0..20 {
        let b = Envelope::new(format!("msg{i}"));
        let s = Envelope::new(alice_priv.sign_with_options(&b.subject().digest().data() as &dyn AsRef<[u8]>, None).unwrap());
        let w = s.add_assertion(known_values::NOTE, "x").wrap_envelope();
        let e = b.add_assertion(known_values::SIGNED, w).add_signature(&bob_priv);
        match e.has_signature_from(&bob_pub) { Ok(true) => oks += 1, _ => errs += 1 }
    }
    println!("B' bob's valid signature: verified {oks}/20, not verified or error {errs}/20");

    // C. regular metadata path for reference
    let md = SignatureMetadata::new().with_assertion(known_values::NOTE, "real");
    let e3 = base.add_signature_opt(&alice_priv, None, Some(md));
    println!("C regular metadata verifies: {}", e3.verify_signature_from_returning_metadata(&alice_pub).is_ok());
    // D. threshold Some(0)
    println!("D threshold 0 with no signatures: {:?}", base.has_signatures_from_threshold(&[&alice_pub], Some(0)).ok());
}
