use vstd::prelude::*;
use std::collections::HashSet;
verus! {
#[derive(Debug)]
pub struct Digest { pub data: [u8; 32] }
impl View for Digest { type V = Seq<u8>; open spec fn view(&self) -> Seq<u8> { self.data@ } }
impl Clone for Digest { #[verifier::external_body] fn clone(&self) -> (r: Self) ensures r == *self { unimplemented!() } }
impl PartialEq for Digest { #[verifier::external_body] fn eq(&self, other: &Self) -> (r: bool) ensures r == (self@ == other@) { unimplemented!() } }
impl Eq for Digest {}
impl std::hash::Hash for Digest { #[verifier::external_body] fn hash<H: std::hash::Hasher>(&self, state: &mut H) { unimplemented!() } }

pub broadcast axiom fn axiom_digest_key_model()
    ensures #[trigger] vstd::std_specs::hash::obeys_key_model::<Digest>();

pub fn t(target: &HashSet<Digest>, d: Digest) -> (r: bool)
    ensures r == target@.contains(d)
{
    broadcast use axiom_digest_key_model;
    let mut cur: HashSet<Digest> = HashSet::new();
    cur.insert(d.clone());
    assert(cur@.contains(d));
    let mut t2 = target.clone();
    if t2.contains(&d) { t2.remove(&d); }
    let e = t2.is_empty();
    target.contains(&d)
}
}
fn main() {}
