import re,sys
from ex import find_fn, strip_doc
R='/repo/src/'
def fn(file,name,nth=0,contract=None,rename_ret=True):
    t=strip_doc(find_fn(open(R+file).read(),name,nth))
    t=re.sub(r'pub\(crate\) ','pub ',t)
    t='\n'.join(l for l in t.split('\n') if not re.match(r'\s*#\[cfg\(feature',l))
    if contract is not None:
        # locate body open brace: first '{' at paren/angle depth 0 after 'fn'
        i=t.index('fn '+name); d=0;k=i
        while True:
            c=t[k]
            if c in '(<[': d+=1
            elif c in ')>]' and not t[k-1]=='-': d-=1
            elif c=='{' and d==0: break
            k+=1
        head=t[:k].rstrip(); body=t[k:]
        m=re.search(r'->\s*(.+)$',head,re.S)
        if m and rename_ret:
            head=head[:m.start()]+'-> (r: '+m.group(1).strip()+')'
        t=head+'\n'+contract+'\n    '+body
    return t
out=[open('prelude.rs').read()]
out.append('''
macro_rules! bail { ($e:expr) => { return Err(Error::from($e)) } }
pub mod extracted {
use super::*;
use super::deps::*;
use std::cmp::Ordering;
broadcast use lemma_concat_one, lemma_concat_two;

#[derive(Debug)]
pub struct Envelope(pub RefCounted<EnvelopeCase>);
impl Clone for Envelope {
    #[verifier::external_body]
    fn clone(&self) -> (r: Self) ensures r == *self { unimplemented!() }
}
#[derive(Debug)]
pub enum EnvelopeCase {
    Node { subject: Envelope, assertions: Vec<Envelope>, digest: Digest },
    Leaf { cbor: CBOR, digest: Digest },
    Wrapped { envelope: Envelope, digest: Digest },
    Assertion(Assertion),
    Elided(Digest),
    KnownValue { value: KnownValue, digest: Digest },
    Encrypted(EncryptedMessage),
    Compressed(Compressed),
}
#[derive(Debug)]
pub struct KnownValue { pub value: u64 }
pub enum ObscureAction { Elide, Encrypt(SymmetricKey), Compress }

#[derive(Debug)]
pub struct Assertion {
    pub predicate: Envelope,
    pub object: Envelope,
    pub digest: Digest,
}
impl Clone for Assertion {
    #[verifier::external_body]
    fn clone(&self) -> (r: Self) ensures r == *self { unimplemented!() }
}
impl vstd::std_specs::convert::FromSpecImpl<EnvelopeCase> for Envelope {
    open spec fn obeys_from_spec() -> bool { true }
    open spec fn from_spec(case: EnvelopeCase) -> Self { Envelope(RefCounted::new(case)) }
}
pub trait EnvelopeEncodable: Sized {
    spec fn enc_wf(self) -> bool;
    spec fn enc_spec(self) -> Envelope;
    fn into_envelope(self) -> (r: Envelope) requires self.enc_wf() ensures r.wf(), r == self.enc_spec();
}
impl EnvelopeEncodable for Envelope {
    open spec fn enc_wf(self) -> bool { self.wf() }
    open spec fn enc_spec(self) -> Envelope { self }
    fn into_envelope(self) -> (r: Envelope) { self }
}

// ---------- spec side (contracts file) ----------
pub uninterp spec fn kv_enc(v: u64) -> Seq<u8>;
pub open spec fn digests_of(es: Seq<Envelope>) -> Seq<Digest>
{
    Seq::new(es.len(), |i: int| es[i].sd_digest())
}
impl Envelope {
    pub open spec fn sd_digest(self) -> Digest {
        match *self.0 {
            EnvelopeCase::Node { subject, assertions, digest } => digest,
            EnvelopeCase::Leaf { cbor, digest } => digest,
            EnvelopeCase::Wrapped { envelope, digest } => digest,
            EnvelopeCase::Assertion(a) => a.digest,
            EnvelopeCase::Elided(digest) => digest,
            EnvelopeCase::KnownValue { value, digest } => digest,
            EnvelopeCase::Encrypted(m) => m.digest_d(),
            EnvelopeCase::Compressed(c) => c.digest_d(),
        }
    }
    pub open spec fn sd(self) -> Seq<u8> { self.sd_digest()@ }
    pub open spec fn wf(self) -> bool
        decreases self
    {
        match *self.0 {
            EnvelopeCase::Node { subject, assertions, digest } => {
                subject.wf()
                && assertions@.len() > 0
                && (forall|i: int| 0 <= i < assertions@.len() ==> (#[trigger] assertions@[i]).wf())
                && digest@ == sha256(subject.sd() + concat_digests(digests_of(assertions@)))
            },
            EnvelopeCase::Leaf { cbor, digest } => digest@ == sha256(cbor.enc()),
            EnvelopeCase::Wrapped { envelope, digest } => envelope.wf() && digest@ == sha256(envelope.sd()),
            EnvelopeCase::Assertion(a) => a.predicate.wf() && a.object.wf() && a.digest@ == sha256(a.predicate.sd() + a.object.sd()),
            EnvelopeCase::Elided(digest) => true,
            EnvelopeCase::KnownValue { value, digest } => digest@ == sha256(kv_enc(value.value)),
            EnvelopeCase::Encrypted(m) => m.aad_digest.is_some(),
            EnvelopeCase::Compressed(c) => c.digest.is_some(),
        }
    }
}
pub open spec fn sorted_by_digest(es: Seq<Envelope>) -> bool {
    forall|i: int, j: int| #![trigger es[i], es[j]] 0 <= i < j < es.len() ==> dle(es[i].sd(), es[j].sd())
}
impl Envelope {
    pub open spec fn node_assertions(self) -> Seq<Envelope> {
        match *self.0 { EnvelopeCase::Node { subject, assertions, digest } => assertions@, _ => Seq::empty() }
    }
    pub open spec fn node_subject(self) -> Envelope {
        match *self.0 { EnvelopeCase::Node { subject, assertions, digest } => subject, _ => self }
    }
}
pub proof fn lemma_concat_push(ds: Seq<Digest>, d: Digest)
    ensures concat_digests(ds.push(d)) == concat_digests(ds) + d@
{
    reveal_with_fuel(concat_digests, 2);
    assert(ds.push(d).drop_last() == ds);
}
pub proof fn lemma_concat_prepend(d: Digest, ds: Seq<Digest>)
    ensures concat_digests(seq![d] + ds) == d@ + concat_digests(ds)
    decreases ds.len()
{
    if ds.len() == 0 {
        assert(seq![d] + ds == seq![d]);
        lemma_concat_one(seq![d]);
        reveal_with_fuel(concat_digests, 1);
        assert(d@ + Seq::<u8>::empty() == d@);
    } else {
        let ds1 = ds.drop_last();
        lemma_concat_prepend(d, ds1);
        assert((seq![d] + ds).drop_last() == seq![d] + ds1);
        assert((seq![d] + ds).last() == ds.last());
        reveal_with_fuel(concat_digests, 2);
        assert((d@ + concat_digests(ds1)) + ds.last()@ == d@ + (concat_digests(ds1) + ds.last()@));
    }
}
pub proof fn lemma_node_digests(subject: Envelope, sorted: Seq<Envelope>, digests: Seq<Digest>)
    requires digests.len() == 1 + sorted.len(), digests[0]@ == subject.sd(),
        forall|k: int| 0 <= k < sorted.len() ==> (#[trigger] digests[k + 1])@ == sorted[k].sd(),
    ensures concat_digests(digests) == subject.sd() + concat_digests(digests_of(sorted))
{
    let tail = digests.subrange(1, digests.len() as int);
    assert(digests == seq![digests[0]] + tail);
    lemma_concat_prepend(digests[0], tail);
    lemma_concat_view_eq(tail, digests_of(sorted));
}
pub proof fn lemma_concat_view_eq(a: Seq<Digest>, b: Seq<Digest>)
    requires a.len() == b.len(), forall|k: int| 0 <= k < a.len() ==> (#[trigger] a[k])@ == b[k]@
    ensures concat_digests(a) == concat_digests(b)
    decreases a.len()
{
    reveal_with_fuel(concat_digests, 2);
    if a.len() > 0 {
        lemma_concat_view_eq(a.drop_last(), b.drop_last());
    }
}
pub proof fn lemma_multiset_wf(a: Seq<Envelope>, b: Seq<Envelope>)
    requires a.to_multiset() == b.to_multiset(), forall|i: int| 0 <= i < a.len() ==> (#[trigger] a[i]).wf()
    ensures forall|i: int| 0 <= i < b.len() ==> (#[trigger] b[i]).wf()
{
    assert forall|i: int| 0 <= i < b.len() implies (#[trigger] b[i]).wf() by {
        vstd::seq_lib::to_multiset_contains(b, b[i]); 
        assert(b.to_multiset().count(b[i]) > 0) by { b.to_multiset_ensures(); }
        a.to_multiset_ensures();
        assert(a.contains(b[i]));
    }
}
impl Assertion {
    pub open spec fn wf(self) -> bool {
        self.predicate.wf() && self.object.wf() && self.digest@ == sha256(self.predicate.sd() + self.object.sd())
    }
}

// ---------- extracted functions ----------
impl From<EnvelopeCase> for Envelope {
''')
out.append(fn('base/envelope.rs','from',0))
out.append('}\nimpl Envelope {')
out.append(fn('base/envelope.rs','case',0,'        ensures *r == *self.0'))
out.append(fn('base/envelope.rs','new_elided',0,'        ensures r.wf(), r.sd() == digest@, *r.0 == EnvelopeCase::Elided(digest)'))
out.append(fn('base/envelope.rs','new_wrapped',0,'        requires envelope.wf()\n        ensures r.wf(), r.sd() == sha256(envelope.sd())'))
out.append(fn('base/envelope.rs','new_with_assertion',0,'        requires assertion.wf()\n        ensures r.wf(), r.sd() == assertion.digest@'))
t=fn('base/envelope.rs','new_with_unchecked_assertions',0,'        requires subject.wf(), unchecked_assertions@.len() > 0, forall|i: int| 0 <= i < unchecked_assertions@.len() ==> (#[trigger] unchecked_assertions@[i]).wf()\n        ensures r.wf(), r.sd() == sha256(subject.sd() + concat_digests(digests_of(r.node_assertions()))), r.node_assertions().to_multiset() == unchecked_assertions@.to_multiset(), sorted_by_digest(r.node_assertions()), r.node_subject() == subject')
# closure contract injection (sidecar)
t=t.replace("sort_by(|a, b| a.digest().cmp(&b.digest()))","sort_by(|a: &Envelope, b: &Envelope| -> (o: Ordering) ensures (o == Ordering::Less) == dlt(a.sd(), b.sd()), (o == Ordering::Equal) == (a.sd() == b.sd()), (o == Ordering::Greater) == dlt(b.sd(), a.sd()) { a.digest().cmp(&b.digest()) })")
# rewrite rule R-extend
t=t.replace("digests.extend(sorted_assertions.iter().map(|a| a.digest().into_owned()));","""for __x in __it: sorted_assertions.iter().map(|a: &Envelope| -> (d: Digest) ensures d@ == a.sd() { a.digest().into_owned() })
            invariant
                digests@.len() == 1 + __it.index@,
                digests@[0]@ == subject.sd(),
                forall|k: int| 0 <= k < __it.index@ ==> (#[trigger] digests@[k + 1])@ == sorted_assertions@[k].sd(),
        { digests.push(__x); }
        proof { lemma_node_digests(subject, sorted_assertions@, digests@); lemma_multiset_wf(unchecked_assertions@, sorted_assertions@); }""")
out.append(t)
out.append(fn('base/wrap.rs','wrap_envelope',0,'        requires self.wf()\n        ensures r.wf(), r.sd() == sha256(self.sd())'))
out.append(fn('base/wrap.rs','unwrap_envelope',0,'        requires self.wf()\n        ensures r matches Ok(e) ==> e.wf()'))
out.append(fn('base/queries.rs','subject',0,'        requires self.wf()\n        ensures r.wf()'))
out.append(fn('base/queries.rs','assertions',0,'        requires self.wf()\n        ensures forall|i: int| 0 <= i < r@.len() ==> (#[trigger] r@[i]).wf()'))
out.append(fn('base/elide.rs','elide',0,'        requires self.wf()\n        ensures r.wf(), r.sd() == self.sd()'))
out.append(fn('base/assertions.rs','remove_assertion',0,'        requires self.wf(), target.wf()\n        ensures r.wf()'))
out.append(fn('base/envelope.rs','new_with_encrypted',0,'        ensures encrypted_message.aad_digest.is_some() ==> (r matches Ok(e) && e.wf() && e.sd() == encrypted_message.digest_d()@), !encrypted_message.aad_digest.is_some() ==> r is Err'))
out.append(fn('base/envelope.rs','new_with_compressed',0,'        ensures compressed.digest.is_some() ==> (r matches Ok(e) && e.wf() && e.sd() == compressed.digest_d()@), !compressed.digest.is_some() ==> r is Err'))
out.append(fn('extension/compress.rs','compress',0,'        requires self.wf()\n        ensures (r is Err) == (*self.0 is Encrypted || *self.0 is Elided), r matches Ok(e) ==> e.wf() && e.sd() == self.sd()'))
out.append('''    #[verifier::external_body]
    pub fn tagged_cbor(&self) -> (r: CBOR) { unimplemented!() }
''')
t=fn('base/elide.rs','elide_set_with_action',0,'        requires self.wf()\n        ensures r.wf(), r.sd() == self.sd()\n        decreases self')
t=t.replace("assertions.iter().map(|assertion| {","assertions.iter().map(|assertion: &Envelope| -> (er: Envelope) requires assertion.wf(), decreases_to!(self => *assertion) ensures er.wf(), er.sd() == assertion.sd() {")
out.append(t)
out.append('}\nimpl DigestProvider for Envelope {\n    open spec fn digest_spec(&self) -> Seq<u8> { self.sd() }')
out.append(fn('base/digest.rs','digest',0))
out.append('}\nimpl Assertion {')
out.append(fn('base/assertion.rs','new',0,'        requires predicate.enc_wf(), object.enc_wf()\n        ensures r.wf(), r.predicate == predicate.enc_spec(), r.object == object.enc_spec()'))
out.append(fn('base/assertion.rs','predicate',0,'        ensures r == self.predicate'))
out.append(fn('base/assertion.rs','object',0,'        ensures r == self.object'))
out.append(fn('base/assertion.rs','digest_ref',0,'        ensures *r == self.digest'))
out.append('}\nimpl PartialEq for Assertion {')
out.append(fn('base/assertion.rs','eq',0,'        ensures r == (self.digest@ == other.digest@)'))
out.append('}\nimpl TryFrom<Compressed> for Envelope {\n    type Error = Error;')
out.append(fn('base/envelope_encodable.rs','try_from',1,'        ensures compressed.digest.is_some() ==> (r matches Ok(e) && e.wf() && e.sd() == compressed.digest_d()@), !compressed.digest.is_some() ==> r is Err'))
out.append('}\nimpl DigestProvider for Assertion {\n    open spec fn digest_spec(&self) -> Seq<u8> { self.digest@ }')
out.append(fn('base/assertion.rs','digest',0))
out.append('}\n} // mod extracted\n} // verus!\nfn main() {}')
open('spike.rs','w').write('\n'.join(out))
