use vstd::prelude::*;
verus! {
pub struct E { pub v: u64 }
#[derive(Debug)]
pub struct Error { _p: () }
impl E {
    pub fn dec(c: u64) -> (r: Result<E, Error>) 
        ensures r matches Ok(e) ==> e.v == c
    { Ok(E { v: c }) }
}
pub fn t(elements: &Vec<u64>) -> (r: Result<Vec<E>, Error>)
    requires elements@.len() >= 2
{
    let assertions: Vec<E> = elements[1..]
        .iter()
        .cloned()
        .map(E::dec)
        .collect::<Result<Vec<E>, Error>>()?;
    Ok(assertions)
}
}
fn main() {}
