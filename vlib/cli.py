import json, os, sys, time
from . import pipeline as P
from .extract import ExtractError
from .gen import GenError

def cmd_gen(args):
    em = P.build()
    os.makedirs(P.BUILD, exist_ok=True)
    path = os.path.join(P.BUILD, "bcenv_verif.rs")
    open(path, "w").write("\n".join(em.lines))
    print("generated", path, len(em.lines), "lines;", len(em.obs), "obligations;", len(em.functions), "items")
    return em, path

def cmd_dev(args):
    """development loop: generate, verify, print failures compactly"""
    try:
        em, path = cmd_gen(args)
    except (ExtractError, GenError) as e:
        print("UNDECIDED:", e); return 2
    res = P.run_verus(path, multiple_errors=5 if "--few" in args else 30)
    a = P.analyse(res, em, path)
    vr = res["out"].get("verification-results", {})
    print("verus rc=%s wall=%.1fs verified=%s errors=%s" % (res["rc"], res["wall"], vr.get("verified"), vr.get("errors")))
    for b in a.build_errors[:40]:
        print("BUILD:", b)
    for u in a.undecided:
        print("UNDECIDED:", u["what"], u["fn"])
    for f in a.failures:
        print("FAIL %-9s fn=%s ob=%s tags=%s site=%s:%s %s" % (f["kind"], f["fn"], f["ob"], sorted(P.failure_tags(f)), f["site_line"], f["site_text"][:80], "(std pre)" if f["clause_external"] else ""))
        if "-v" in args:
            print(f["rendered"])
    if not vr:
        print(res["stderr_tail"][-3000:])
    ft = P.function_times(res)
    slow = sorted(ft.items(), key=lambda kv: -kv[1]["ms"])[:6]
    print("slowest:", [(k.split("::")[-1], v["ms"]) for k, v in slow])
    return 0

def main(argv):
    if argv and argv[0] == "gen":
        cmd_gen(argv[1:]); return 0
    if argv and argv[0] == "dev":
        return cmd_dev(argv[1:])
    print("usage: check gen|dev|<Cxx> ..."); return 2
