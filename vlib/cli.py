import json, os, sys, time
from . import pipeline as P
from . import report as R
from .extract import ExtractError
from .gen import GenError

def cmd_gen(args):
    em = P.build()
    os.makedirs(P.BUILD, exist_ok=True)
    path = os.path.join(P.BUILD, "bcenv_verif.rs")
    open(path, "w").write("\n".join(em.lines))
    print("generated", path, len(em.lines), "lines;", len(em.obs), "obligations;", len(em.functions), "items")
    return em, path

def cmd_dev(args):
    """development loop: generate, verify, print failures compactly"""
    try:
        em, path = cmd_gen(args)
    except (ExtractError, GenError) as e:
        print("UNDECIDED:", e); return 2
    res = P.run_verus(path, multiple_errors=5 if "--few" in args else 30)
    a = P.analyse(res, em, path)
    vr = res["out"].get("verification-results", {})
    print("verus rc=%s wall=%.1fs verified=%s errors=%s" % (res["rc"], res["wall"], vr.get("verified"), vr.get("errors")))
    for b in a.build_errors[:40]:
        print("BUILD:", b)
    for u in a.undecided:
        print("UNDECIDED:", u["what"], u["fn"])
    for f in a.failures:
        print("FAIL %-9s fn=%s ob=%s tags=%s site=%s:%s %s" % (f["kind"], f["fn"], f["ob"], sorted(P.failure_tags(f)), f["site_line"], f["site_text"][:80], "(std pre)" if f["clause_external"] else ""))
        if "-v" in args:
            print(f["rendered"])
    if not vr:
        print(res["stderr_tail"][-3000:])
    ft = P.function_times(res)
    slow = sorted(ft.items(), key=lambda kv: -kv[1]["ms"])[:6]
    print("slowest:", [(k.split("::")[-1], v["ms"]) for k, v in slow])
    return 0

def props_meta():
    return json.load(open(os.path.join(P.VERIF, "contracts", "PROPS.json")))

def cmd_check(prop, args):
    tier = os.environ.get("VERIF_TIER", "quick")
    if "--tier" in args:
        tier = args[args.index("--tier") + 1]
    try:
        seed = int(os.environ.get("VERIF_SEED", "0"))
    except ValueError:
        seed = 0
    meta = props_meta().get(prop)
    if meta is None:
        print("property %s is not claimed (see MANIFEST.not_applicable)" % prop)
        return 2
    try:
        r = R.full_run(tier, seed)
        code, out, ev = R.decide(prop, r, tier, seed, meta)
        if tier == "thorough":
            from . import thorough
            code2, out2, extra = thorough.run(prop, r, seed, meta)
            out += out2
            ev["coverage"].update(extra)
            if code == 0:
                code = code2
    except P.Undecided as e:
        print("UNDECIDED property=%s: %s" % (prop, e))
        return 2
    os.makedirs(os.path.join(P.VERIF, "evidence"), exist_ok=True)
    json.dump(ev, open(os.path.join(P.VERIF, "evidence", "%s.json" % prop), "w"), indent=1)
    for l in out:
        print(l)
    c = ev["coverage"]
    print("property=%s tier=%s obligations=%d discharged=%d functions=%d verus_wall=%.1fs exit=%d" % (
        prop, tier, c["obligations"], c["discharged"], c["functions_under_contract_count"], c["verus_wall_s"], code))
    return code

def cmd_multi(props, args):
    """developer command (seeds_run.py): ONE pipeline run, decided for several properties; prints one RESULT line per
    property and writes no evidence file (evidence is only written by `./check <Cxx>`)."""
    try:
        seed = int(os.environ.get("VERIF_SEED", "0"))
    except ValueError:
        seed = 0
    try:
        r = R.full_run("quick", seed)
    except P.Undecided as e:
        for prop in props:
            print("RESULT %s exit=2 :: UNDECIDED property=%s: %s" % (prop, prop, str(e).replace("\n", " ")[:400]))
        return 2
    worst = 0
    for prop in props:
        meta = props_meta().get(prop)
        if meta is None:
            print("RESULT %s exit=2 :: not claimed" % prop); continue
        code, out, ev = R.decide(prop, r, "quick", seed, meta)
        first = next((l for l in out if l.startswith("VIOLATION")), None) or next((l for l in out if l.startswith("UNDECIDED")), "")
        print("RESULT %s exit=%d :: %s" % (prop, code, first[:700]))
        worst = max(worst, code)
    return worst

def cmd_replay(args):
    path = args[0]
    rep = json.load(open(path))
    prop = rep["property"]
    print("replaying %s: property=%s, %d failed obligation(s) recorded" % (path, prop, len(rep["failed_obligations"])))
    try:
        r = R.full_run("quick", rep.get("seed", 0))
    except P.Undecided as e:
        print("UNDECIDED:", e); return 2
    now = {(f["ob"] or ("%s@%s" % (f["kind"], f["fn"]))) for f in r.an.failures}
    still = [o for o in rep["failed_obligations"] if o["obligation"] in now]
    for o in rep["failed_obligations"]:
        print("  %s: %s" % (o["obligation"], "STILL FAILS on the current tree" if o in still else "discharged on the current tree"))
    return 1 if still else 0

def main(argv):
    if argv and argv[0] == "gen":
        cmd_gen(argv[1:]); return 0
    if argv and argv[0] == "baseline":
        # record the inventory of closures/loops per contracted function (run on the tree the contracts were written for)
        em = P.build()
        json.dump(em.inventory, open(os.path.join(P.VERIF, "contracts", "BASELINE.json"), "w"), indent=0, sort_keys=True)
        json.dump(R.outside_panic_sites(em, counts=True), open(os.path.join(P.VERIF, "contracts", "PANIC_BASELINE.json"), "w"), indent=0, sort_keys=True)
        print("baseline: %d functions" % len(em.inventory)); return 0
    if argv and argv[0] == "dev":
        return cmd_dev(argv[1:])
    if argv and argv[0] == "replay":
        return cmd_replay(argv[1:])
    if argv and argv[0] == "multi":
        return cmd_multi(argv[1].split(","), argv[2:])
    if argv and argv[0].startswith("C") and argv[0][1:].isdigit():
        return cmd_check(argv[0], argv[1:])
    print("usage: check gen|dev|replay <file>|<Cxx> [--tier quick|thorough]"); return 2
