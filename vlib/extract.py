"""Mechanical extraction of items from /repo/src.

An item is keyed by (file, normalised header of the enclosing impl/trait block or '-', name).
The text returned is the source text of the item, byte range located by lexing,
with only the logged normalisations of DESIGN.md section 3.1 applied.
"""
import hashlib
import os
import re
from .lexer import lex, code_toks, match_close, OPEN, CLOSE, LexError

DEFAULT_FEATURES = {"attachment", "compress", "encrypt", "expression", "known_value", "proof",
                    "recipient", "salt", "signature", "ssh", "sskr", "types"}

class ExtractError(Exception):
    """Extraction failed: lost item, unsupported construct... => undecided (exit 2)."""

def norm_header(toks):
    out = []
    for t in toks:
        if out and (out[-1][-1].isalnum() or out[-1][-1] == '_') and (t.text[0].isalnum() or t.text[0] == '_'):
            out.append(" ")
        out.append(t.text)
    return "".join(out)

def eval_cfg(toks):
    """toks: code tokens inside cfg( ... ). Returns True/False under the default feature set."""
    pos = [0]
    def peek():
        return toks[pos[0]].text if pos[0] < len(toks) else None
    def eat(x=None):
        t = toks[pos[0]]
        if x is not None and t.text != x:
            raise ExtractError("cfg parse: expected %s got %s" % (x, t.text))
        pos[0] += 1
        return t
    def pred():
        t = eat()
        if t.text == "feature":
            eat("=")
            s = eat()
            return s.text.strip('"') in DEFAULT_FEATURES
        if t.text == "test":
            return False
        if t.text in ("all", "any", "not"):
            eat("(")
            vals = []
            while peek() != ")":
                vals.append(pred())
                if peek() == ",":
                    eat(",")
            eat(")")
            if t.text == "all":
                return all(vals)
            if t.text == "any":
                return any(vals)
            return not vals[0]
        if t.text in ("debug_assertions",):
            return True
        raise ExtractError("cfg parse: unknown predicate %s" % t.text)
    return pred()

DROP_ATTRS = ("doc", "allow", "inline", "must_use", "derive", "deprecated", "error", "macro_export", "macro_use", "test", "should_panic", "ignore")

class Item:
    def __init__(self, file, header, kind, name, start, end, line0, line1, text, attrs):
        self.file, self.header, self.kind, self.name = file, header, kind, name
        self.start, self.end, self.line0, self.line1 = start, end, line0, line1
        self.text = text          # normalised text (attrs/docs dropped)
        self.attrs = attrs        # list of attribute texts seen (for logging)
        self.sha = hashlib.sha256(text.encode()).hexdigest()

class SourceFile:
    def __init__(self, root, rel):
        self.rel = rel
        self.path = os.path.join(root, rel)
        try:
            self.src = open(self.path).read()
        except OSError as e:
            raise ExtractError("cannot read %s: %s" % (self.path, e))
        try:
            self.toks = code_toks(lex(self.src))
        except LexError as e:
            raise ExtractError("lex error in %s: %s" % (rel, e))
        self.items = []     # list of Item
        self.dropped_cfg = []
        self._scan(0, len(self.toks), "-")

    def _line(self, pos):
        return self.src.count("\n", 0, pos) + 1

    def _scan(self, lo, hi, header):
        toks = self.toks
        k = lo
        while k < hi:
            start_k = k
            attrs = []
            cfg_ok = True
            # attributes
            while k < hi and toks[k].text == "#":
                if toks[k + 1].text == "!":
                    # inner attribute  #![...]
                    e = match_close(toks, k + 2)
                    k = e + 1
                    start_k = k
                    continue
                e = match_close(toks, k + 1)
                inner = toks[k + 2:e]
                atext = self.src[toks[k].start:toks[e].end]
                attrs.append(atext)
                if inner and inner[0].text == "cfg":
                    if not eval_cfg(inner[2:-1]):
                        cfg_ok = False
                k = e + 1
            if k >= hi:
                break
            item_tok_start = k
            # visibility and qualifiers
            while k < hi and toks[k].text in ("pub", "unsafe", "async", "const", "default", "extern"):
                if toks[k].text == "pub" and toks[k + 1].text == "(":
                    k = match_close(toks, k + 1) + 1
                elif toks[k].text == "extern" and toks[k + 1].kind == "str":
                    k += 2
                elif toks[k].text == "const" and toks[k + 1].text != "fn":
                    break
                else:
                    k += 1
            if k >= hi:
                break
            kw = toks[k].text
            # find end of item: first ';' or '{...}' at depth 0
            j = k
            end_k = None
            body_open = None
            while j < hi:
                t = toks[j]
                if t.kind == "punct" and t.text in ("(", "["):
                    j = match_close(toks, j) + 1
                    continue
                if t.kind == "punct" and t.text == "{":
                    body_open = j
                    end_k = match_close(toks, j)
                    break
                if t.kind == "punct" and t.text == ";":
                    end_k = j
                    break
                j += 1
            if end_k is None:
                raise ExtractError("%s: cannot find end of item at line %d" % (self.rel, self._line(toks[k].start)))
            # macro_rules! / macro invocation items: name!( ... ); or name! { ... }
            name = None
            if kw in ("fn", "struct", "enum", "trait", "mod", "type", "union", "static"):
                name = toks[k + 1].text
            elif kw == "const":
                name = toks[k + 1].text
            elif kw == "impl":
                name = None
            if kw in ("struct",) and body_open is None:
                pass
            if kw in ("struct", "enum") and body_open is not None:
                # tuple struct `struct X(..);` handled by ';' path; brace struct ends at '}'
                pass
            if kw == "struct" and body_open is not None and end_k + 1 < hi and False:
                pass
            if not cfg_ok:
                self.dropped_cfg.append((self._line(toks[start_k].start), kw, name))
            elif kw in ("impl", "trait") and body_open is not None:
                hdr = norm_header(toks[k:body_open])
                if kw == "trait":
                    self._add(start_k, item_tok_start, end_k, header, "trait", name, attrs)
                self._scan(body_open + 1, end_k, hdr)
            elif kw == "mod" and body_open is not None:
                self._scan(body_open + 1, end_k, header)
            elif kw in ("fn", "struct", "enum", "const", "type", "static"):
                self._add(start_k, item_tok_start, end_k, header, kw, name, attrs)
            elif toks[k].kind == "ident" and k + 1 < hi and toks[k + 1].text == "!":
                # macro invocation item
                mname = toks[k].text
                self._add(start_k, item_tok_start, end_k, header, "macro", mname, attrs)
            k = end_k + 1

    def _add(self, start_k, item_k, end_k, header, kind, name, attrs):
        toks = self.toks
        for a in attrs:
            m = re.match(r"#\[\s*([A-Za-z_:]+)", a)
            an = m.group(1) if m else a
            if an not in DROP_ATTRS and an != "cfg" and an != "cfg_attr":
                raise ExtractError("%s: unsupported attribute %s on %s" % (self.rel, a, name))
        start, end = toks[item_k].start, toks[end_k].end
        raw = self.src[start:end]
        text = normalise_item_text(raw, self.rel)
        self.items.append(Item(self.rel, header, kind, name, start, end,
                               self._line(start), self._line(end), text, attrs))

    def find(self, header, name, kind=None, nth=0):
        c = [it for it in self.items
             if it.name == name and (header is None or it.header == header) and (kind is None or it.kind == kind)]
        if len(c) <= nth:
            raise ExtractError("%s: item not found: [%s] %s (kind=%s, nth=%d); candidates with that name: %s" % (
                self.rel, header, name, kind, nth, [(i.header, i.kind) for i in self.items if i.name == name]))
        if header is None and len(c) > 1 and nth == 0:
            pass
        return c[nth]


def normalise_item_text(raw, rel):
    """Drop doc comments and ordinary comments, drop `#[cfg(..)]`/`#[inline]`... attributes inside the
    item (cfg must evaluate to true under the default feature set), normalise visibility to `pub`.
    Nothing else is touched."""
    try:
        toks = lex(raw)
    except LexError as e:
        raise ExtractError("lex error in item of %s: %s" % (rel, e))
    cut = []   # (start,end) ranges to delete
    ct = [t for t in toks if t.kind != "comment"]
    for t in toks:
        if t.kind == "comment":
            cut.append((t.start, t.end))
    k = 0
    while k < len(ct):
        t = ct[k]
        if t.text == "#" and k + 1 < len(ct) and ct[k + 1].text == "[":
            e = match_close(ct, k + 1)
            inner = ct[k + 2:e]
            an = inner[0].text if inner else ""
            if an == "cfg":
                if not eval_cfg(inner[2:-1]):
                    raise ExtractError("%s: cfg-false code inside an extracted item is not supported: %s" % (
                        rel, raw[t.start:ct[e].end]))
                cut.append((t.start, ct[e].end))
            elif an in DROP_ATTRS:
                cut.append((t.start, ct[e].end))
            else:
                raise ExtractError("%s: unsupported attribute inside item: %s" % (rel, raw[t.start:ct[e].end]))
            k = e + 1
            continue
        if t.text == "pub" and k + 1 < len(ct) and ct[k + 1].text == "(":
            e = match_close(ct, k + 1)
            cut.append((ct[k + 1].start, ct[e].end))
            k = e + 1
            continue
        k += 1
    cut.sort()
    out, pos = [], 0
    for a, b in cut:
        if a < pos:
            continue
        out.append(raw[pos:a])
        pos = b
    out.append(raw[pos:])
    text = "".join(out)
    # tidy: remove lines that became empty, trailing spaces
    lines = [l.rstrip() for l in text.split("\n")]
    lines = [l for l in lines if l.strip() != ""]
    return "\n".join(lines)


class Repo:
    def __init__(self, root):
        self.root = root
        self.files = {}
    def file(self, rel):
        if rel not in self.files:
            self.files[rel] = SourceFile(self.root, rel)
        return self.files[rel]
