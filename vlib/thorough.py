"""Thorough tier: solver-stability runs (different Z3 seeds, halved rlimit)."""
import os
from . import pipeline as P

def run(prop, r, seed, meta):
    out, extra = [], {}
    seeds = [(seed * 7919 + k * 104729 + 1) % 1000003 for k in range(3)]
    runs = []
    base_fail = {(f["fn"], f["ob"], f["kind"]) for f in r.an.failures}
    unstable = set()
    for i, sd in enumerate(seeds):
        rl = 30 if i < 2 else 15
        res = P.run_verus(r.path, rlimit=rl, extra=["--smt-option", "smt.random_seed=%d" % sd, "--smt-option", "sat.random_seed=%d" % sd])
        an = P.analyse(res, r.em, r.path)
        fails = {(f["fn"], f["ob"], f["kind"]) for f in an.failures}
        und = [(u["what"], u["fn"]) for u in an.undecided]
        runs.append({"z3_seed": sd, "rlimit": rl, "failures": len(fails), "undecided": und, "wall_s": round(res["wall"], 1)})
        for x in fails ^ base_fail:
            fn = next((f for f in r.em.functions if f["key"] == x[0]), None)
            if fn is None or prop in fn["tags"] or prop == "C16":
                unstable.add(x)
        for what, fnk in und:
            fn = next((f for f in r.em.functions if f["key"] == fnk), None)
            if fn is None or prop in fn["tags"]:
                unstable.add((fnk, None, what))
    extra["stability_runs"] = runs
    extra["unstable_obligations"] = [list(map(str, x)) for x in sorted(unstable, key=str)]
    code = 0
    if unstable:
        out.append("UNDECIDED property=%s: solver-unstable obligations: %s" % (prop, sorted(unstable, key=str)[:5]))
        code = 2
    return code, out, extra
