"""Thorough tier: solver-stability runs (different Z3 seeds, halved rlimit)."""
import os
from . import pipeline as P

def run(prop, r, seed, meta):
    out, extra = [], {}
    seeds = [(seed * 7919 + k * 104729 + 1) % 1000003 for k in range(3)]
    runs = []
    base_fail = {(f["fn"], f["ob"], f["kind"]) for f in r.an.failures}
    unstable = set()
    for i, sd in enumerate(seeds):
        rl = 30 if i < 2 else 15
        res = P.run_verus(r.path, rlimit=rl, extra=["--smt-option", "smt.random_seed=%d" % sd, "--smt-option", "sat.random_seed=%d" % sd])
        an = P.analyse(res, r.em, r.path)
        fails = {(f["fn"], f["ob"], f["kind"]) for f in an.failures}
        und = [(u["what"], u["fn"]) for u in an.undecided]
        runs.append({"z3_seed": sd, "rlimit": rl, "failures": len(fails), "undecided": und, "wall_s": round(res["wall"], 1)})
        for x in fails ^ base_fail:
            fn = next((f for f in r.em.functions if f["key"] == x[0]), None)
            if fn is None or prop in fn["tags"] or prop == "C16":
                unstable.add(x)
        for what, fnk in und:
            fn = next((f for f in r.em.functions if f["key"] == fnk), None)
            if fn is None or prop in fn["tags"]:
                unstable.add((fnk, None, what))
    mt = mutation_selftest(prop, r)
    extra.update(mt)
    extra["stability_runs"] = runs
    extra["unstable_obligations"] = [list(map(str, x)) for x in sorted(unstable, key=str)]
    code = 0
    if unstable:
        out.append("UNDECIDED property=%s: solver-unstable obligations: %s" % (prop, sorted(unstable, key=str)[:5]))
        code = 2
    return code, out, extra


def mutation_selftest(prop, r):
    """Apply every catalogued mutant that targets `prop` to a scratch copy of the CURRENT /repo/src, run the pipeline,
    and record whether some obligation tagged `prop` fails (killed).  Survivors do not change the exit code: they
    are a measured weakness of the contracts.  Scratch copies live under /var/tmp and are removed."""
    import json, shutil, tempfile
    from . import gen
    from .extract import ExtractError
    cat_path = os.path.join(P.VERIF, "mutations", "catalogue.json")
    try:
        cat = json.load(open(cat_path))["mutants"]
    except (OSError, ValueError, KeyError):
        return {"mutants_total": 0, "mutants_killed": 0, "mutants": []}
    mine = [m for m in cat if prop in m["expect"]]
    results = []
    killed = 0
    # obligations that already fail on the unmutated tree (recorded findings and their cascades) never count as a kill
    def _fid(f):
        return (f["ob"] or ("%s@%s" % (f["kind"], f["fn"])), f["fn"], f["kind"], (f.get("site_text") or "")[:80])
    if r is not None:
        base_fail = {_fid(f) for f in r.an.failures}
    else:
        em0 = P.build()
        path0 = os.path.join(P.BUILD, "bcenv_mutant_base.rs")
        open(path0, "w").write("\n".join(em0.lines))
        base_fail = {_fid(f) for f in P.analyse(P.run_verus(path0, multiple_errors=30), em0, path0).failures}
    for m in mine:
        scratch = tempfile.mkdtemp(prefix="verif_mut_", dir="/var/tmp")
        try:
            shutil.copytree(os.path.join(P.REPO, "src"), os.path.join(scratch, "src"))
            fpath = os.path.join(scratch, "src", m["file"])
            src = open(fpath).read()
            idx = -1
            start = 0
            for _ in range(m.get("nth", 0) + 1):
                idx = src.find(m["find"], start)
                if idx < 0:
                    break
                start = idx + 1
            if idx < 0:
                results.append({"id": m["id"], "status": "skipped: pattern no longer occurs in the source"})
                continue
            open(fpath, "w").write(src[:idx] + m["replace"] + src[idx + len(m["find"]):])
            try:
                em = P.build(repo_root=scratch)
            except (ExtractError, gen.GenError) as e:
                results.append({"id": m["id"], "status": "undecided: %s" % str(e)[:200]})
                continue
            path = os.path.join(P.BUILD, "bcenv_mutant.rs")
            open(path, "w").write("\n".join(em.lines))
            res = P.run_verus(path, multiple_errors=10)
            an = P.analyse(res, em, path)
            if an.build_errors:
                results.append({"id": m["id"], "status": "undecided: generated file does not compile: %s" % an.build_errors[0][:160]})
                continue
            # same decision policy as the check itself: a failure in a function whose annotations could not be placed is
            # undecided, not a detection
            deg = {d.split(": ")[0] for d in em.degraded if ": orphan: " not in d}
            fresh = [f for f in an.failures if _fid(f) not in base_fail]
            hit = sorted({(f["ob"] or ("%s@%s" % (f["kind"], f["fn"]))) for f in fresh if prop in P.failure_tags(f) and f["fn"] not in deg})
            und = sorted({(f["ob"] or ("%s@%s" % (f["kind"], f["fn"]))) for f in fresh if prop in P.failure_tags(f) and f["fn"] in deg})
            if not hit and und:
                results.append({"id": m["id"], "status": "undecided: obligations fail only in functions whose annotations could not be placed", "obligations": und[:4]})
                continue
            if hit:
                killed += 1
                results.append({"id": m["id"], "status": "killed", "obligations": hit[:4]})
            else:
                other = sorted({t for f in an.failures for t in P.failure_tags(f)})
                results.append({"id": m["id"], "status": "SURVIVED", "failed_for_other_properties": other})
        finally:
            shutil.rmtree(scratch, ignore_errors=True)
    return {"mutants_total": len(mine), "mutants_killed": killed, "mutants": results}
