"""Minimal Rust lexer: enough to find items, match braces, and locate closures/loops
without being fooled by strings, chars, lifetimes and (nested) comments."""
import re

class Tok:
    __slots__ = ("kind", "text", "start", "end")
    def __init__(self, kind, text, start, end):
        self.kind, self.text, self.start, self.end = kind, text, start, end
    def __repr__(self):
        return "Tok(%s,%r,%d)" % (self.kind, self.text, self.start)

_ident = re.compile(r"(?:r#)?[A-Za-z_][A-Za-z0-9_]*")
_num = re.compile(r"[0-9][0-9A-Za-z_]*(?:\.[0-9][0-9A-Za-z_]*)?")
_rawstr = re.compile(r'b?r(#*)"')
_char = re.compile(r"b?'(?:\\x[0-9a-fA-F]{2}|\\u\{[0-9a-fA-F_]+\}|\\.|[^'\\])'")
_lifetime = re.compile(r"'[A-Za-z_][A-Za-z0-9_]*")
_puncts = ["<<=", ">>=", "...", "..=", "::", "->", "=>", "==", "!=", "<=", ">=", "&&", "||",
           "+=", "-=", "*=", "/=", "%=", "^=", "&=", "|=", "<<", ">>", ".."]

class LexError(Exception):
    pass

def lex(s, keep_comments=True):
    toks = []
    i, n = 0, len(s)
    while i < n:
        c = s[i]
        if c.isspace():
            i += 1
            continue
        if s.startswith("//", i):
            j = s.find("\n", i)
            j = n if j < 0 else j
            if keep_comments:
                toks.append(Tok("comment", s[i:j], i, j))
            i = j
            continue
        if s.startswith("/*", i):
            d, j = 1, i + 2
            while d > 0:
                if j >= n:
                    raise LexError("unterminated block comment")
                if s.startswith("/*", j):
                    d += 1; j += 2
                elif s.startswith("*/", j):
                    d -= 1; j += 2
                else:
                    j += 1
            if keep_comments:
                toks.append(Tok("comment", s[i:j], i, j))
            i = j
            continue
        m = _rawstr.match(s, i)
        if m:
            h = m.group(1)
            j = s.find('"' + h, m.end())
            if j < 0:
                raise LexError("unterminated raw string")
            j += 1 + len(h)
            toks.append(Tok("str", s[i:j], i, j)); i = j
            continue
        if c == '"' or (c == 'b' and i + 1 < n and s[i + 1] == '"'):
            j = i + (2 if c == 'b' else 1)
            while j < n and s[j] != '"':
                if s[j] == "\\":
                    j += 1
                j += 1
            j += 1
            toks.append(Tok("str", s[i:j], i, j)); i = j
            continue
        if c == "'" or (c == 'b' and i + 1 < n and s[i + 1] == "'"):
            m = _char.match(s, i)
            if m:
                toks.append(Tok("char", m.group(0), i, m.end())); i = m.end()
                continue
            m = _lifetime.match(s, i)
            if m:
                toks.append(Tok("lifetime", m.group(0), i, m.end())); i = m.end()
                continue
            raise LexError("bad quote at %d" % i)
        m = _ident.match(s, i)
        if m:
            toks.append(Tok("ident", m.group(0), i, m.end())); i = m.end()
            continue
        m = _num.match(s, i)
        if m:
            toks.append(Tok("num", m.group(0), i, m.end())); i = m.end()
            continue
        for p in _puncts:
            if s.startswith(p, i):
                toks.append(Tok("punct", p, i, i + len(p))); i += len(p)
                break
        else:
            toks.append(Tok("punct", c, i, i + 1)); i += 1
    return toks

OPEN = {"(": ")", "[": "]", "{": "}"}
CLOSE = {")": "(", "]": "[", "}": "{"}

def match_close(toks, k):
    """toks[k] is an opening bracket; return index of its closing bracket."""
    assert toks[k].text in OPEN, toks[k]
    d = 0
    for j in range(k, len(toks)):
        t = toks[j]
        if t.kind != "punct":
            continue
        if t.text in OPEN:
            d += 1
        elif t.text in CLOSE:
            d -= 1
            if d == 0:
                return j
    raise LexError("unbalanced bracket at %d" % toks[k].start)

def code_toks(toks):
    return [t for t in toks if t.kind != "comment"]
