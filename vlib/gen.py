"""Generator: contracts/*.vrs templates + extracted /repo items -> one Verus crate file.

Directive grammar inside a template (everything else is copied verbatim):

  //@fn <file> :: <impl header | -> :: <name> [:: nth=<k>]
  //@ tags C01 C04
  //@ ret <name>|-                     name of the result binder (default r; '-' = leave signature alone)
  //@ attr <text>                      attribute line emitted before the fn (e.g. #[verifier::spinoff_prover])
  //@ requires <expr> [#[C..]]
  //@ ensures <expr> [#[C..]]
  //@ decreases <expr>
  //@ closure <n> :: <typed params with $1..> :: <ret binder or -> :: [requires a, b] :: [ensures c, d]
  //@ loop <n> :: [iter <name>] :: invariant a, b [:: decreases d]
  //@ nested <fn name> :: requires ... :: ensures ... :: decreases ...
  //@ before "<anchor>" [nth=k] :: <text>
  //@ after "<anchor>" [nth=k] :: <text>
  //@ rule extend <n> :: [iter <name>] :: invariant a, b
  //@ rule collect_result <n> :: ...
  //@+ continuation of the previous directive
  //@end

  //@type <file> :: <struct|enum|trait> :: <name> [:: header=<hdr>]     (verbatim type definition)
"""
import re
from .lexer import lex, code_toks, match_close, OPEN, CLOSE
from .extract import ExtractError

class GenError(Exception):
    """Sidecar/template cannot be applied to the current source => undecided (exit 2)."""

TAG_RE = re.compile(r"\s*#\[(C[0-9]{2,3}(?:\s*,\s*C[0-9]{2,3})*)\]\s*$")

def split_tag(s):
    m = TAG_RE.search(s)
    if m:
        return s[:m.start()].rstrip(), [x.strip() for x in m.group(1).split(",")]
    return s.rstrip(), None

def inv_clause(cexpr):
    """an invariant conjunct may end in `#[Cxx]`: extra property tags for that conjunct (e.g. C16 on the conjunct that
    guards a panic site after the loop), on top of the function's tags"""
    c, t = split_tag(cexpr)
    return c, [x for x in (t or [])]

def split_top(s, sep=","):
    """split at top-level separators (outside brackets, strings and quantifier binders |..|)."""
    toks = lex(s)
    parts = []
    last = 0
    d = 0
    in_binder = False
    for i, t in enumerate(toks):
        if t.kind == "punct":
            if in_binder:
                if t.text == "|":
                    in_binder = False
                continue
            if t.text == "|" and i > 0 and toks[i - 1].kind == "ident" and toks[i - 1].text in ("forall", "exists", "choose"):
                in_binder = True
                continue
            if t.text in OPEN:
                d += 1
            elif t.text in CLOSE:
                d -= 1
            elif t.text == sep and d == 0:
                parts.append(s[last:t.start]); last = t.end
    parts.append(s[last:])
    return [p.strip() for p in parts if p.strip()]

class FnSpec:
    def __init__(self, file, header, name, nth, lineno, tmpl):
        self.file, self.header, self.name, self.nth = file, header, name, nth
        self.lineno, self.tmpl = lineno, tmpl
        self.tags = []
        self.ret = "r"
        self.attrs = []
        self.requires, self.ensures, self.decreases = [], [], []   # (expr, tags)
        self.closures, self.loops, self.nested = {}, {}, {}
        self.anchors = []      # (kind, anchor, nth, text)
        self.rules = []        # (rule, n, fields)
        self.subst = []        # textual substitutions (logged rewrites)
        self.drop_body = False
        self.rename = None
        self.from_closure = None
        self.body_post = None
        self.tail_post = None
    @property
    def key(self):
        h = "" if self.header in ("-", None) else self.header + "::"
        k = "%s:%s%s" % (self.file, h, self.name)
        if self.nth:
            k += "#%d" % self.nth
        return k

def parse_fields(rest):
    """'a :: requires x, y :: ensures z' -> (['a'], {'requires': 'x, y', 'ensures': 'z'})"""
    parts = [p.strip() for p in rest.split(" :: ")]
    pos, kw = [], {}
    for p in parts:
        m = re.match(r"(requires|ensures|invariant2|invariant_except_break|invariant|decreases|iter2|iter|ensures_loop|body2_end|body2|body_end|body|post)\b\s*(.*)$", p, re.S)
        if m:
            kw[m.group(1)] = m.group(2).strip()
        else:
            pos.append(p)
    return pos, kw

def parse_template(text, tmpl_name):
    """Returns list of segments: ('text', str) | ('fn', FnSpec) | ('type', dict)."""
    lines = text.split("\n")
    segs, buf = [], []
    i = 0
    while i < len(lines):
        l = lines[i]
        s = l.strip()
        if s.startswith("//@fn "):
            if buf:
                segs.append(("text", "\n".join(buf))); buf = []
            f = [x.strip() for x in s[len("//@fn "):].split(" :: ")]
            if len(f) < 3:
                raise GenError("%s:%d: bad //@fn" % (tmpl_name, i + 1))
            nth = 0
            for extra in f[3:]:
                m = re.match(r"nth=(\d+)", extra)
                if m:
                    nth = int(m.group(1))
            fs = FnSpec(f[0], f[1], f[2], nth, i + 1, tmpl_name)
            i += 1
            dirs = []
            while True:
                if i >= len(lines):
                    raise GenError("%s: //@fn at line %d without //@end" % (tmpl_name, fs.lineno))
                s2 = lines[i].strip()
                if s2 == "//@end":
                    break
                if s2.startswith("//@+"):
                    if not dirs:
                        raise GenError("%s:%d: continuation without directive" % (tmpl_name, i + 1))
                    dirs[-1] = dirs[-1] + "\n" + s2[4:].rstrip()
                elif s2.startswith("//@ "):
                    dirs.append(s2[4:].rstrip())
                elif s2 == "" or s2.startswith("// "):
                    pass
                else:
                    raise GenError("%s:%d: unexpected line inside //@fn block: %s" % (tmpl_name, i + 1, s2))
                i += 1
            for d in dirs:
                apply_directive(fs, d, tmpl_name)
            segs.append(("fn", fs))
        elif s.startswith("//@type "):
            if buf:
                segs.append(("text", "\n".join(buf))); buf = []
            f = [x.strip() for x in s[len("//@type "):].split(" :: ")]
            d = {"file": f[0], "kind": f[1], "name": f[2], "opts": f[3:], "tmpl": tmpl_name, "lineno": i + 1}
            segs.append(("type", d))
        elif s.startswith("//@kvconsts "):
            if buf:
                segs.append(("text", "\n".join(buf))); buf = []
            segs.append(("kvconsts", {"file": s[len("//@kvconsts "):].strip(), "tmpl": tmpl_name}))
        elif s.startswith("//@leaf_type "):
            if buf:
                segs.append(("text", "\n".join(buf))); buf = []
            f = [x.strip() for x in s[len("//@leaf_type "):].split(" :: ")]
            segs.append(("leaf_type", {"file": f[0], "macro": f[1], "type": f[2], "tags": f[3].split() if len(f) > 3 else [], "tmpl": tmpl_name}))
        elif s.startswith("//@leaf_decodable "):
            if buf:
                segs.append(("text", "\n".join(buf))); buf = []
            f = [x.strip() for x in s[len("//@leaf_decodable "):].split(" :: ")]
            segs.append(("leaf_decodable", {"file": f[0], "macro": f[1], "type": f[2], "tags": f[3].split() if len(f) > 3 else [], "tmpl": tmpl_name}))
        elif s.startswith("//@tagged "):
            buf.append(l)
        elif s.startswith("//@"):
            raise GenError("%s:%d: stray directive %s" % (tmpl_name, i + 1, s))
        else:
            buf.append(l)
        i += 1
    if buf:
        segs.append(("text", "\n".join(buf)))
    return segs

def apply_directive(fs, d, tmpl_name):
    m = re.match(r"(\w+)\s*(.*)$", d, re.S)
    if not m:
        raise GenError("%s: bad directive %r" % (tmpl_name, d))
    kw, rest = m.group(1), m.group(2)
    if kw == "tags":
        fs.tags = rest.split()
    elif kw == "ret":
        fs.ret = rest.strip()
    elif kw == "attr":
        fs.attrs.append(rest.strip())
    elif kw == "rename":
        fs.rename = rest.strip()
    elif kw == "body_post":
        # body_post :: <proof text>   -- the whole body `{ B }` becomes `{ let __r = { B }; <proof text> __r }`: a proof hint
        # about the function's result that does not depend on any statement of the body staying as it is
        fs.body_post = rest.lstrip(": ").strip()
    elif kw == "tail_post":
        # tail_post :: <proof text>  -- the body's tail expression E becomes `let __r = E; <proof text> __r` in the SAME scope
        # as the statements before it (so ghost captures made by `before` hints are visible); like body_post it does not
        # depend on what E is
        fs.tail_post = rest.lstrip(": ").strip()
    elif kw == "from_closure":
        # from_closure <let-variable> :: <new fn name> :: <state var>: <state param type> :: <Self type> :: <return type>
        f = [x.strip() for x in rest.split(" :: ")]
        fs.from_closure = {"var": f[0], "fn": f[1], "state": f[2], "selfty": f[3], "ret": f[4],
                           "captures": [x.strip() for x in f[5].split(",")] if len(f) > 5 and f[5].strip() else []}
    elif kw in ("requires", "ensures", "decreases"):
        e, t = split_tag(rest)
        getattr(fs, kw).append((e, t))
    elif kw == "closure":
        rest, ctags = split_tag(rest)
        pos, kws = parse_fields(rest)
        kws["tags"] = ctags
        n = int(pos[0]) if pos[0].isdigit() else pos[0]
        fs.closures[n] = {"params": pos[1] if len(pos) > 1 else None,
                          "ret": pos[2] if len(pos) > 2 else "-", **kws}
    elif kw == "loop":
        pos, kws = parse_fields(rest)
        fs.loops[int(pos[0])] = kws
    elif kw == "nested":
        pos, kws = parse_fields(rest)
        kws["ret"] = pos[1] if len(pos) > 1 else "r"
        if len(pos) > 2 and pos[2].startswith("assumed"):
            kws["assumed"] = pos[2][len("assumed"):].strip() or "[A-repo-nested]"
        fs.nested[pos[0]] = kws
    elif kw in ("before", "after", "after_stmt"):
        m2 = re.match(r'"((?:[^"\\]|\\.)*)"\s*(?:nth=(\d+)\s*)?::\s*(.*)$', rest, re.S)
        if not m2:
            raise GenError("%s: bad %s directive: %r" % (tmpl_name, kw, rest))
        fs.anchors.append((kw, m2.group(1).replace('\\"', '"'), int(m2.group(2) or 0), m2.group(3)))
    elif kw == "rule":
        pos, kws = parse_fields(rest)
        p0 = pos[0].split()
        fs.rules.append((p0[0], int(p0[1]) if len(p0) > 1 else 0, pos[1:], kws))
    else:
        raise GenError("%s: unknown directive %s (fn %s)" % (tmpl_name, kw, fs.name))

# ---------------------------------------------------------------------------------------------
# signature parsing / structural location on an item's text

class FnShape:
    pass

def angle_skip(toks, k):
    """toks[k] is '<' opening generics; return index after matching '>'."""
    d = 0
    j = k
    while j < len(toks):
        t = toks[j].text
        if toks[j].kind == "punct":
            if t == "<":
                d += 1
            elif t == ">":
                d -= 1
            elif t == ">>":
                d -= 2
            elif t in ("(", "["):
                j = match_close(toks, j)
            if d <= 0 and t in (">", ">>"):
                return j + 1
        j += 1
    raise GenError("unbalanced generics")

def parse_fn(text, name):
    """Locate pieces of `fn name ... { body }` at the start of `text` (item text)."""
    toks = code_toks(lex(text))
    k = 0
    while k < len(toks) and not (toks[k].text == "fn" and toks[k + 1].text == name):
        if toks[k].kind == "punct" and toks[k].text in OPEN:
            raise GenError("fn %s: unexpected bracket before fn keyword" % name)
        k += 1
    if k >= len(toks):
        raise GenError("fn %s not found in item text" % name)
    sh = FnShape()
    sh.toks = toks
    sh.fn_k = k
    j = k + 2
    if toks[j].text == "<":
        j = angle_skip(toks, j)
    if toks[j].text != "(":
        raise GenError("fn %s: expected '('" % name)
    sh.params_open = j
    sh.params_close = match_close(toks, j)
    j = sh.params_close + 1
    sh.ret_start = sh.ret_end = None
    if toks[j].text == "->":
        sh.ret_start = toks[j + 1].start
        j2 = j + 1
        while not (toks[j2].text in ("where", "{", ";") and toks[j2].kind in ("ident", "punct")):
            if toks[j2].kind == "punct" and toks[j2].text in ("(", "["):
                j2 = match_close(toks, j2)
            j2 += 1
        sh.ret_end = toks[j2 - 1].end
        j = j2
    sh.where_k = None
    if toks[j].text == "where":
        sh.where_k = j
        while toks[j].text not in ("{", ";"):
            if toks[j].kind == "punct" and toks[j].text in ("(", "["):
                j = match_close(toks, j)
            j += 1
    sh.sig_end = toks[j - 1].end       # end of signature text (before body or ';')
    sh.has_body = toks[j].text == "{"
    sh.body_open = j if sh.has_body else None
    sh.body_close = match_close(toks, j) if sh.has_body else None
    return sh

CLOSURE_PREV = {"(", ",", "=", "{", ";", "=>", "move", "return", "[", "&&", "||", "!"}

def find_closures(toks, lo, hi):
    """Return list of dicts for closures whose header starts in toks[lo:hi], in source order."""
    out = []
    k = lo
    while k < hi:
        t = toks[k]
        if t.kind == "punct" and t.text in ("|", "||"):
            prev = toks[k - 1].text if k > 0 else "("
            prevkind = toks[k - 1].kind if k > 0 else "punct"
            is_start = (prevkind == "punct" and prev in CLOSURE_PREV) or (prevkind == "ident" and prev in ("move", "return"))
            if is_start:
                c = {"bar1": k}
                if t.text == "||":
                    c["bar2"] = k
                    c["params"] = []
                    j = k + 1
                else:
                    j = k + 1
                    params, cur_start = [], j
                    d = 0
                    while True:
                        tj = toks[j]
                        if tj.kind == "punct":
                            if tj.text in OPEN:
                                j = match_close(toks, j) + 1
                                continue
                            if tj.text == "<":
                                d += 1
                            elif tj.text == ">":
                                d -= 1
                            elif tj.text == "|" and d == 0:
                                if j > cur_start:
                                    params.append((cur_start, j))
                                break
                            elif tj.text == "," and d == 0:
                                params.append((cur_start, j))
                                cur_start = j + 1
                        j += 1
                    c["bar2"] = j
                    c["params"] = params
                    j += 1
                # optional return type
                c["ret"] = None
                if toks[j].text == "->":
                    r0 = j + 1
                    while toks[j].text != "{":
                        j += 1
                    c["ret"] = (r0, j)
                c["body_start"] = j
                if toks[j].text == "{":
                    c["block"] = True
                    c["body_end"] = match_close(toks, j)      # index of closing brace
                else:
                    c["block"] = False
                    # expression body: until ',' or closing bracket / ';' at depth 0
                    jj = j
                    while True:
                        tj = toks[jj]
                        if tj.kind == "punct":
                            if tj.text in OPEN:
                                jj = match_close(toks, jj) + 1
                                continue
                            if tj.text in CLOSE or tj.text in (",", ";"):
                                break
                        jj += 1
                    c["body_end"] = jj - 1                    # index of last token of the body
                # callee: name of the method/function whose argument list contains this closure
                callee = None
                q = k - 1
                depth = 0
                while q >= lo:
                    tq = toks[q]
                    if tq.kind == "punct" and tq.text in CLOSE:
                        depth += 1
                    elif tq.kind == "punct" and tq.text in OPEN:
                        if depth == 0:
                            if tq.text == "(" and q > 0 and toks[q - 1].kind == "ident":
                                callee = toks[q - 1].text
                            break
                        depth -= 1
                    elif tq.kind == "punct" and tq.text in (";",) and depth == 0:
                        break
                    elif tq.kind == "punct" and tq.text == "=" and depth == 0 and q > 0 and toks[q - 1].kind == "ident":
                        callee = "let:" + toks[q - 1].text
                        break
                    q -= 1
                c["callee"] = callee or "?"
                out.append(c)
                k = c["body_start"]       # nested closures inside the body are found too
                continue
        k += 1
    return out

def find_loops(toks, lo, hi):
    out = []
    k = lo
    while k < hi:
        t = toks[k]
        if t.kind == "ident" and t.text in ("for", "while", "loop"):
            prev = toks[k - 1]
            if t.text == "for" and prev.text in ("impl", ">") :
                k += 1
                continue
            L = {"kw": t.text, "k": k}
            j = k + 1
            in_k = None
            while True:
                tj = toks[j]
                if tj.kind == "punct" and tj.text in ("(", "["):
                    j = match_close(toks, j) + 1
                    continue
                if tj.kind == "ident" and tj.text == "in" and in_k is None and t.text == "for":
                    in_k = j
                if tj.kind == "punct" and tj.text == "{":
                    break
                j += 1
            L["in_k"] = in_k
            L["body_open"] = j
            L["body_close"] = match_close(toks, j)
            out.append(L)
        k += 1
    return out

def find_nested_fn(toks, lo, hi, name):
    k = lo
    while k < hi:
        if toks[k].text == "fn" and toks[k].kind == "ident" and toks[k + 1].text == name:
            return k
        k += 1
    return None

def recv_start(toks, k):
    """toks[k] is the '.' starting a method call; return index of first token of the receiver postfix chain."""
    r = k
    while True:
        p_ = toks[r - 1]
        if p_.kind == "ident" or p_.text in (".", "::", "?"):
            if p_.kind == "ident" and p_.text in ("if", "let", "return", "in", "match", "while", "else", "mut"):
                break
            r -= 1
        elif p_.text in (")", "]"):
            d_ = 0
            q = r - 1
            while True:
                if toks[q].text in (")", "]"):
                    d_ += 1
                elif toks[q].text in ("(", "["):
                    d_ -= 1
                    if d_ == 0:
                        break
                q -= 1
            r = q
        elif p_.text == "&" :
            r -= 1
            break
        else:
            break
    return r

# ---------------------------------------------------------------------------------------------

class Emitter:
    """Accumulates the output file and the line -> obligation table."""
    def __init__(self):
        self.lines = []
        self.obs = {}          # ob id -> dict(kind, fn, tags, text, lines=[..])
        self.fn_ranges = []    # (line0, line1, fnkey, tags, src info)
        self.rewrites = []     # logged rule applications
        self.functions = []    # fn descriptors for evidence
        self.degraded = []     # sidecar annotations that could not be placed (source changed shape)
        self.inventory = {}    # fnkey -> {closures: [callee..], loops: n} as found in the current source
        self.baseline = {}     # the same, recorded when the contracts were written (contracts/BASELINE.json)
    def add(self, text):
        for l in text.split("\n"):
            self.lines.append(l)
    @property
    def lineno(self):
        return len(self.lines) + 1

def fmt_clauses(kind, clauses, fnkey, ftags, em, indent, lines_out, prefix):
    """Emit `kind` block with one clause per (possibly multi-line) entry, registering obligations."""
    if not clauses:
        return
    lines_out.append("%s%s" % (indent, kind))
    for n, (expr, tags) in enumerate(clauses, 1):
        obid = "%s#%s%d" % (fnkey, prefix, n)
        tg = tags if tags is not None else [t for t in ftags if t != "C16"]
        elines = expr.split("\n")
        start = len(lines_out)
        for i, el in enumerate(elines):
            tail = "," if i == len(elines) - 1 else ""
            mark = "  /*@ob %s*/" % obid if i == len(elines) - 1 else ""
            lines_out.append("%s    %s%s%s" % (indent, el.strip() if i == 0 else el.rstrip(), tail, mark))
        em_ob = {"id": obid, "kind": kind, "fn": fnkey, "tags": list(tg), "text": expr.strip(),
                 "rel_lines": (start, len(lines_out))}
        em._pending.append(em_ob)

def apply_edits(text, edits):
    """edits: list of (start, end, replacement). Non-overlapping except pure insertions at same pos
    (kept in given order)."""
    edits = sorted(enumerate(edits), key=lambda x: (x[1][0], x[1][1], x[0]))
    out, pos = [], 0
    for _, (a, b, rep) in edits:
        if a < pos:
            raise GenError("overlapping edits at %d (%r)" % (a, rep[:40]))
        out.append(text[pos:a]); out.append(rep); pos = b
    out.append(text[pos:])
    return "".join(out)

def subst_params(s, names):
    def rep(m):
        i = int(m.group(1))
        if i < 1 or i > len(names):
            raise GenError("closure contract refers to $%d but closure has %d params" % (i, len(names)))
        return names[i - 1]
    return re.sub(r"\$(\d+)", rep, s)

def instantiate_fn(fs, item, em):
    """Return generated text for one function with contracts injected."""
    text = item.text
    sh = parse_fn(text, fs.name)
    toks = sh.toks
    edits = []
    fnkey = fs.key
    em._pending = []
    log = []
    degraded = []

    # ---- signature: result binder + contract
    if fs.ret != "-" and sh.ret_start is not None:
        rt = text[sh.ret_start:sh.ret_end]
        edits.append((sh.ret_start, sh.ret_end, "(%s: %s)" % (fs.ret, rt)))
    contract_lines = []
    ind = "        "
    fmt_clauses("requires", fs.requires, fnkey, fs.tags, em, ind, contract_lines, "req")
    fmt_clauses("ensures", fs.ensures, fnkey, fs.tags, em, ind, contract_lines, "ens")
    fmt_clauses("decreases", fs.decreases, fnkey, fs.tags, em, ind, contract_lines, "dec")
    contract_marker = None
    if contract_lines:
        contract_marker = "\n\x00CONTRACT\x00\n    "
        edits.append((sh.sig_end, sh.sig_end, contract_marker))

    # ---- automatic rule R-param-pattern: a tuple-pattern parameter `(a, b): T` becomes `__argN: T` with `let (a, b) = __argN;`
    # as the first statement (Verus accepts only identifier parameters)
    if sh.has_body:
        j = sh.params_open + 1
        pn = 0
        lets = []
        while j < sh.params_close:
            # j is at the start of a parameter
            if toks[j].text == "(":
                pc = match_close(toks, j)
                if toks[pc + 1].text == ":":
                    pat = text[toks[j].start:toks[pc].end]
                    edits.append((toks[j].start, toks[pc].end, "__arg%d" % pn))
                    lets.append("let %s = __arg%d;" % (pat, pn))
                    log.append("R-param-pattern: parameter pattern `%s` bound by a let at the start of the body" % pat)
            # advance to the next top-level comma
            while j < sh.params_close and toks[j].text != ",":
                if toks[j].kind == "punct" and toks[j].text in OPEN:
                    j = match_close(toks, j)
                elif toks[j].text == "<":
                    j = angle_skip(toks, j) - 1
                j += 1
            j += 1
            pn += 1
        if lets:
            bo = toks[sh.body_open].end
            edits.append((bo, bo, " " + " ".join(lets)))
        # ---- automatic rule R-mut-self: `mut self` (unsupported by Verus) becomes `self` with `let mut __self = self;`
        # and every `self` in the body alpha-renamed to `__self`
        a = sh.params_open + 1
        if toks[a].text == "mut" and toks[a + 1].text == "self":
            edits.append((toks[a].start, toks[a + 1].end, "self"))
            bo = toks[sh.body_open].end
            edits.append((bo, bo, " let mut __self = self;"))
            for q in range(sh.body_open + 1, sh.body_close):
                if toks[q].kind == "ident" and toks[q].text == "self":
                    edits.append((toks[q].start, toks[q].end, "__self"))
            log.append("R-mut-self: `mut self` bound by `let mut __self = self;`, `self` renamed to `__self` in the body")
    if sh.has_body:
        lo, hi = sh.body_open, sh.body_close
        # ---- automatic rule R-assert-eq: assert_eq!(A, B) -> assert!((A) == (B))  (Verus has no assert_eq!)
        k = lo
        while k + 2 < hi:
            if toks[k].kind == "ident" and toks[k].text in ("assert_eq", "assert_ne") and toks[k + 1].text == "!" and toks[k + 2].text == "(":
                close = match_close(toks, k + 2)
                # top-level commas
                commas = []
                j = k + 3
                while j < close:
                    if toks[j].kind == "punct" and toks[j].text in OPEN:
                        j = match_close(toks, j) + 1
                        continue
                    if toks[j].text == ",":
                        commas.append(j)
                    j += 1
                if commas:
                    a_txt = text[toks[k + 3].start:toks[commas[0] - 1].end]
                    b_end = commas[1] - 1 if len(commas) > 1 else close - 1
                    b_txt = text[toks[commas[0] + 1].start:toks[b_end].end]
                    op = "==" if toks[k].text == "assert_eq" else "!="
                    edits.append((toks[k].start, toks[close].end, "assert!((%s) %s (%s))" % (a_txt, op, b_txt)))
                    log.append("R-assert-eq: `%s!(%s, %s)` rewritten to `assert!((..) %s (..))` (line %d)" % (
                        toks[k].text, a_txt, b_txt, op, item.line0 + text.count("\n", 0, toks[k].start)))
                k = close + 1
                continue
            k += 1
        # ---- closures
        cls = find_closures(toks, lo, hi)
        em.inventory[fnkey] = {"closures": [x["callee"] for x in cls], "loops": len(find_loops(toks, lo, hi))}
        # did a closure or loop appear that was not there when the contracts were written?  If not, an annotation whose
        # construct (closure, loop, iterator chain) has disappeared is ORPHANED: it described code that is gone, nothing
        # took its place that would need it, and it does not make failures in this function undecided.
        _base = em.baseline.get(fnkey)
        took_place = True
        if _base is not None:
            _rest = list(_base["closures"]); _added = []
            for _c in sorted(x["callee"] for x in cls):
                if _c in _rest:
                    _rest.remove(_c)
                else:
                    _added.append(_c)
            took_place = bool(_added) or em.inventory[fnkey]["loops"] > _base["loops"]
        def _gone(msg):
            degraded.append(msg if took_place else "orphan: " + msg)
        for n, spec in sorted(fs.closures.items(), key=lambda kv: str(kv[0])):
            if isinstance(n, int):
                if n < 1 or n > len(cls):
                    degraded.append("closure %s not found (function has %d closures)" % (n, len(cls)))
                    continue
                c = cls[n - 1]
            else:
                cname, _, cord = n.partition("#")
                cord = int(cord or 1)
                cand = [x for x in cls if x["callee"] == cname]
                if len(cand) < cord:
                    # `any` <-> `all`: the same predicate closure handed to the twin adapter (a classic one-token change).
                    # The contract of the closure is about the predicate, not the adapter, so it is applied to the twin.
                    twin = {"any": "all", "all": "any"}.get(cname)
                    if twin and ("%s#%d" % (twin, cord)) not in fs.closures and (cord != 1 or twin not in fs.closures):
                        cand2 = [x for x in cls if x["callee"] == twin]
                        if len(cand2) >= cord:
                            cand = [None] * (cord - 1) + [cand2[cord - 1]]
                            log.append("closure contract %s applied to the closure now passed to `%s` (callee changed)" % (n, twin))
                if len(cand) < cord:
                    if cand:
                        degraded.append("closure %s not found (closures in this function: %s)" % (n, [x["callee"] for x in cls]))
                    else:
                        _gone("closure %s not found (closures in this function: %s)" % (n, [x["callee"] for x in cls]))
                    continue
                c = cand[cord - 1]
            names = []
            pats = []
            for i, (a, b) in enumerate(c["params"], 1):
                ptoks = toks[a:b]
                nm = ptoks[0].text
                if ptoks[0].kind != "ident" or (len(ptoks) > 1 and ptoks[1].text != ":"):
                    if len(ptoks) == 1 and nm == "_":
                        nm = "_p%d" % i
                        log.append("closure %s param %d: `_` renamed to %s (Verus rejects `_` closure params)" % (n, i, nm))
                    elif ptoks[0].text == "(" and ptoks[-1].text == ")":
                        # R-closure-param-pattern: a tuple-pattern parameter gets a name; the pattern is bound by a `let`
                        # at the start of the closure body
                        nm = "__cp%d" % i
                        pats.append("let %s = %s;" % (text[ptoks[0].start:ptoks[-1].end], nm))
                        log.append("closure %s param %d: tuple pattern bound by a let at the start of the closure body" % (n, i))
                    else:
                        raise GenError("%s: closure %s has a pattern parameter; unsupported" % (fnkey, n))
                if nm == "_":
                    nm = "_p%d" % i
                    log.append("closure %s param %d: `_` renamed to %s" % (n, i, nm))
                names.append(nm)
            ptxt = spec["params"]
            if ptxt is None:
                raise GenError("%s: closure %s needs typed params" % (fnkey, n))
            ptypes = [] if ptxt.strip() in ("-", "") else split_top(ptxt)      # `-`: a closure without parameters (`|| ..`)
            if len(ptypes) != len(names):
                raise GenError("%s: closure %s has %d params in source but sidecar gives %d" % (fnkey, n, len(names), len(ptypes)))
            header = "|" + ", ".join("%s: %s" % (nm, ty) for nm, ty in zip(names, ptypes)) + "|"
            ret = spec.get("ret", "-")
            if ret and ret != "-":
                header += " -> " + ret
            cl = []
            for kind in ("requires", "ensures"):
                if spec.get(kind):
                    cs = split_top(subst_params(spec[kind], names))
                    cl.append("%s" % kind)
                    for ci, cexpr in enumerate(cs, 1):
                        obid = "%s#cl[%s]%s%d" % (fnkey, n, kind[:3], ci)
                        cexpr, ctag = split_tag(cexpr)       # a single clause may carry its own `#[Cxx]`
                        cl.append("    %s,  /*@ob %s*/" % (cexpr, obid))
                        em._pending.append({"id": obid, "kind": "closure-" + kind, "fn": fnkey,
                                            "tags": list(ctag or spec.get("tags") or [t for t in fs.tags if t != "C16"]),
                                            "text": cexpr, "marker": obid})
            ctext = ("\n" + "\n".join("                " + x for x in cl) + "\n            ") if cl else " "
            b1, b2 = toks[c["bar1"]], toks[c["bar2"]]
            if c["ret"] is not None:
                # source already has a return type: replace header incl. return type
                hdr_end = toks[c["body_start"]].start
            else:
                hdr_end = b2.end
            if c["block"]:
                edits.append((b1.start, hdr_end, header + ctext))
                if pats:
                    bs = toks[c["body_start"]]
                    edits.append((bs.end, bs.end, " " + " ".join(pats)))
            else:
                edits.append((b1.start, hdr_end, header + ctext + "{ " + " ".join(pats) + " "))
                edits.append((toks[c["body_end"]].end, toks[c["body_end"]].end, " }"))
            c["_annotated"] = True
        # a closure that was not there when the contracts were written and got no contract (not even through the any/all
        # twin rule): Verus knows nothing about what it returns, so obligations of this function that fail cannot be told
        # from a violation (reported as undecided)
        if _base is not None:
            _rest2 = list(_base["closures"]); _newc = []
            for c in cls:
                if c["callee"] in _rest2:
                    _rest2.remove(c["callee"])
                elif not c.get("_annotated"):
                    _newc.append(c["callee"])
            if _newc:
                degraded.append("new closure(s) without a contract passed to %s" % sorted(set(_newc)))
        # closures without a contract: a bare `_` parameter still has to get a name (Verus rejects `_` closure params)
        for c in cls:
            if c.get("_annotated"):
                continue
            for i, (a, b) in enumerate(c["params"], 1):
                if b - a == 1 and toks[a].text == "_":
                    edits.append((toks[a].start, toks[a].end, "_p%d" % i))
                    log.append("closure param %d: `_` renamed to _p%d (Verus rejects `_` closure params)" % (i, i))
        # ---- pre-pass: which hints can be placed; ghost names declared by hints that cannot are "lost", and every hint,
        # loop-invariant clause or subst text that mentions a lost ghost name is dropped with it (degraded), so that a
        # source change that removes one anchor does not turn the remaining hints into compile errors
        def _anchor_found(anchor, nth):
            apat = r"\s+".join(re.escape(w) for w in anchor.split())
            body_lo = toks[lo].start
            ms = [m for m in re.finditer(apat, text) if m.start() >= body_lo]
            return len(ms) > nth
        decl_re = re.compile(r"let\s+ghost\s+(?:mut\s+)?(\w+)")
        lost_names = set()
        dropped_anchors = set()
        lps_pre = find_loops(toks, lo, hi)
        for ai, (kind, anchor, nth, atext) in enumerate(fs.anchors):
            if not _anchor_found(anchor, nth):
                lost_names.update(decl_re.findall(atext))
        for n, spec in fs.loops.items():
            if n < 1 or n > len(lps_pre):
                lost_names.update(decl_re.findall(spec.get("body") or ""))
                if spec.get("iter"):
                    lost_names.add(spec["iter"])
        changed = True
        def _mentions_lost(t):
            return sorted(nm for nm in lost_names if re.search(r"\b%s\b" % re.escape(nm), t))
        while changed and lost_names:
            changed = False
            for ai, (kind, anchor, nth, atext) in enumerate(fs.anchors):
                if ai in dropped_anchors or not _anchor_found(anchor, nth):
                    continue
                ml = _mentions_lost(atext)
                if ml:
                    dropped_anchors.add(ai)
                    degraded.append("hint at %r dropped: it mentions ghost %s declared by a hint that could not be placed" % (anchor, ml))
                    new_l = set(decl_re.findall(atext)) - lost_names
                    if new_l:
                        lost_names.update(new_l); changed = True
        # ---- loops
        lps = find_loops(toks, lo, hi)
        for n, spec in sorted(fs.loops.items()):
            if n < 1 or n > len(lps):
                _gone("loop %d not found (function has %d loops)" % (n, len(lps)))
                continue
            L = lps[n - 1]
            if L["kw"] == "for" and spec.get("iter"):
                it = spec["iter"]
                ink = toks[L["in_k"]]
                edits.append((ink.end, ink.end, " %s:" % it))
            ltxt = []
            for kind in ("invariant_except_break", "invariant", "ensures", "decreases"):
                if spec.get(kind):
                    ltxt.append(kind)
                    for ci, cexpr in enumerate(split_top(spec[kind]), 1):
                        cexpr, __xt = inv_clause(cexpr)
                        obid = "%s#loop%d%s%d" % (fnkey, n, kind[:3], ci)
                        if _mentions_lost(cexpr):
                            degraded.append("loop %d %s clause %d dropped: it mentions lost ghost %s" % (n, kind, ci, _mentions_lost(cexpr)))
                            continue
                        ltxt.append("    %s,  /*@ob %s*/" % (cexpr, obid))
                        em._pending.append({"id": obid, "kind": "loop-" + kind, "fn": fnkey, "tags": [t for t in fs.tags if t != "C16"] + __xt,
                                            "text": cexpr, "marker": obid})
            bo = toks[L["body_open"]]
            edits.append((bo.start, bo.start, "\n" + "\n".join("                " + x for x in ltxt) + "\n            "))
            if spec.get("body"):
                edits.append((bo.end, bo.end, " " + spec["body"]))
            if spec.get("body_end"):
                bc = toks[L["body_close"]]
                edits.append((bc.start, bc.start, " " + spec["body_end"] + " "))
        # ---- nested fns
        for nname, spec in fs.nested.items():
            nk = find_nested_fn(toks, lo + 1, hi, nname)
            if nk is None:
                degraded.append("nested fn %s not found" % nname)
                continue
            sub = parse_fn(text[toks[nk].start:], nname)
            off = toks[nk].start
            assumed = spec.get("assumed")
            if assumed:
                # the nested fn is left unverified (external_body): its contract is an ASSUMPTION, not an obligation
                edits.append((off, off, "#[verifier::external_body] /* ASSUMED %s */ " % assumed))
            if spec.get("ret", "r") != "-" and sub.ret_start is not None:
                edits.append((off + sub.ret_start, off + sub.ret_end,
                              "(%s: %s)" % (spec["ret"], text[off + sub.ret_start:off + sub.ret_end])))
            ntxt = []
            for kind in ("requires", "ensures", "decreases"):
                if spec.get(kind):
                    ntxt.append(kind)
                    for ci, cexpr in enumerate(split_top(spec[kind]), 1):
                        cexpr, __xt = inv_clause(cexpr)
                        obid = "%s#%s.%s%d" % (fnkey, nname, kind[:3], ci)
                        if assumed:
                            ntxt.append("    %s," % cexpr)
                            continue
                        ntxt.append("    %s,  /*@ob %s*/" % (cexpr, obid))
                        em._pending.append({"id": obid, "kind": "nested-" + kind, "fn": fnkey, "tags": [t for t in fs.tags if t != "C16"] + __xt,
                                            "text": cexpr, "marker": obid})
            edits.append((off + sub.sig_end, off + sub.sig_end,
                          "\n" + "\n".join("            " + x for x in ntxt) + "\n        "))
        # ---- rewrite rules
        for rule, n, pos, kws in fs.rules:
            if rule == "extend":
                # nth statement `<recv>.extend(ITER);`  ->  for __x in it: ITER invariant .. { recv.push(__x); }
                cnt = 0
                found = False
                k = lo
                while k < hi:
                    if toks[k].text == "extend" and toks[k - 1].text == "." and toks[k + 1].text == "(":
                        cnt += 1
                        if cnt == max(n, 1):
                            # receiver: tokens back to statement start
                            r = k - 2
                            while toks[r - 1].text not in (";", "{", "}"):
                                r -= 1
                            recv = text[toks[r].start:toks[k - 2].end]
                            close = match_close(toks, k + 1)
                            if toks[close + 1].text != ";":
                                raise GenError("%s: extend rule: statement does not end with ';'" % fnkey)
                            it = kws.get("iter", "__it")
                            inv = []
                            if kws.get("invariant"):
                                inv.append("invariant")
                                for ci, cexpr in enumerate(split_top(kws["invariant"]), 1):
                                    cexpr, __xt = inv_clause(cexpr)
                                    obid = "%s#ext%dinv%d" % (fnkey, cnt, ci)
                                    inv.append("    %s,  /*@ob %s*/" % (cexpr, obid))
                                    em._pending.append({"id": obid, "kind": "loop-invariant", "fn": fnkey,
                                                        "tags": [t for t in fs.tags if t != "C16"] + __xt, "text": cexpr, "marker": obid})
                            # shape `BASE.map(CLOSURE)`: iterate BASE and call the closure explicitly
                            # (definition of Iterator::map + Extend); otherwise iterate ITER as is.
                            mk = None
                            q = close - 1
                            if toks[q].text == ")":
                                dd = 0
                                qq = q
                                while True:
                                    if toks[qq].text in (")", "]", "}"):
                                        dd += 1
                                    elif toks[qq].text in ("(", "[", "{"):
                                        dd -= 1
                                        if dd == 0:
                                            break
                                    qq -= 1
                                if toks[qq - 1].text == "map" and toks[qq - 2].text == ".":
                                    mk = qq - 2
                            if mk is not None:
                                # `recv.extend(` BASE `.map(` CL `)` `);`
                                edits.append((toks[r].start, toks[k + 1].end, "{ let __f = "))
                                # move: we emit closure first, then the loop over BASE
                                base_txt = text[toks[k + 2].start:toks[mk - 1].end]
                                edits.append((toks[k + 2].start, toks[mk + 2].end, ""))       # drop `BASE.map(`
                                edits.append((toks[close - 1].start, toks[close + 1].end,
                                              "; for __x in %s: %s\n" % (it, base_txt) + "\n".join("                " + x for x in inv) +
                                              "\n        { %s.push(__f(__x)); } }" % recv))
                                log.append("R-extend-map: `%s.extend(BASE.map(CL));` rewritten to `let f = CL; for x in BASE { %s.push(f(x)); }` (line %d)" % (
                                    recv, recv, item.line0 + text.count("\n", 0, toks[k].start)))
                                found = True
                                break
                            edits.append((toks[r].start, toks[k + 1].end, "for __x in %s: " % it))
                            edits.append((toks[close].start, toks[close + 1].end,
                                          "\n" + "\n".join("                " + x for x in inv) +
                                          "\n        { %s.push(__x); }" % recv))
                            log.append("R-extend: `%s.extend(ITER);` rewritten to a for-loop pushing each element (line %d)" % (
                                recv, item.line0 + text.count("\n", 0, toks[k].start)))
                            found = True
                            break
                    k += 1
                if not found:
                    _gone("extend rule: statement %d not found" % n)
            elif rule in ("iter_any", "iter_all", "iter_position", "iter_find_map"):
              found = False
              for meth in [rule[5:]] + ([{"any": "all", "all": "any"}[rule[5:]]] if rule[5:] in ("any", "all") and not any(r2[0] == "iter_" + {"any": "all", "all": "any"}[rule[5:]] for r2 in fs.rules) else []):
                if found:
                    break
                if meth != rule[5:]:
                    log.append("R-iter-%s applied where the template expected `.%s(` (callee changed)" % (meth, rule[5:]))
                cnt = 0
                k = lo
                while k + 5 < hi:
                    if (toks[k].text == "." and toks[k + 1].text == "iter" and toks[k + 2].text == "(" and toks[k + 3].text == ")"
                            and toks[k + 4].text == "." and toks[k + 5].text == meth and toks[k + 6].text == "("):
                        cnt += 1
                        if cnt == max(n, 1):
                            # receiver: simple postfix chain going backwards
                            r = k
                            while True:
                                p_ = toks[r - 1]
                                if p_.kind == "ident" or p_.text in (".", "::", "?"):
                                    if p_.kind == "ident" and p_.text in ("if", "let", "return", "in", "match", "while", "else"):
                                        break
                                    r -= 1
                                elif p_.text in (")", "]"):
                                    d_ = 0
                                    q = r - 1
                                    while True:
                                        if toks[q].text in (")", "]"):
                                            d_ += 1
                                        elif toks[q].text in ("(", "["):
                                            d_ -= 1
                                            if d_ == 0:
                                                break
                                        q -= 1
                                    r = q
                                else:
                                    break
                            recv = text[toks[r].start:toks[k - 1].end]
                            close = match_close(toks, k + 6)
                            edits.append((toks[r].start, toks[k + 6].end, "slice_%s(%s.as_slice(), " % (meth, recv)))
                            log.append("R-iter-%s: `%s.iter().%s(CL)` rewritten to `slice_%s(%s.as_slice(), CL)` (line %d)" % (
                                meth, recv, meth, meth, recv, item.line0 + text.count("\n", 0, toks[k].start)))
                            found = True
                            break
                    k += 1
              if not found:
                    _gone("%s rule: occurrence %d not found" % (rule, n))
            elif rule == "fold":
                # RECV.into_iter().fold(INIT, CL)   (R-fold: definition of Iterator::fold)
                cnt = 0
                found = False
                k = lo
                while k + 7 < hi:
                    tt = [toks[k + j].text for j in range(0, 7)]
                    if tt in ([".", "into_iter", "(", ")", ".", "fold", "("], [".", "iter", "(", ")", ".", "fold", "("]):
                        itm = tt[1]
                        cnt += 1
                        if cnt == max(n, 1):
                            r = recv_start(toks, k)
                            recv = text[toks[r].start:toks[k - 1].end]
                            fclose = match_close(toks, k + 6)
                            # first top-level comma inside fold(...)
                            j = k + 7
                            comma = None
                            while j < fclose:
                                if toks[j].kind == "punct" and toks[j].text in OPEN:
                                    j = match_close(toks, j) + 1
                                    continue
                                if toks[j].text == ",":
                                    comma = j
                                    break
                                j += 1
                            if comma is None:
                                raise GenError("%s: fold rule: expected two arguments" % fnkey)
                            it = kws.get("iter", "__it")
                            inv = []
                            if kws.get("invariant"):
                                inv.append("invariant")
                                for ci, cexpr in enumerate(split_top(kws["invariant"]), 1):
                                    cexpr, __xt = inv_clause(cexpr)
                                    obid = "%s#fold%dinv%d" % (fnkey, cnt, ci)
                                    inv.append("    %s,  /*@ob %s*/" % (cexpr, obid))
                                    em._pending.append({"id": obid, "kind": "loop-invariant", "fn": fnkey,
                                                        "tags": [t for t in fs.tags if t != "C16"] + __xt, "text": cexpr, "marker": obid})
                            edits.append((toks[r].start, toks[k + 6].end, "{ let __src = %s.%s(); let mut __acc = " % (recv, itm)))
                            edits.append((toks[comma].start, toks[comma].end, "; let __f = "))
                            edits.append((toks[fclose].start, toks[fclose].end,
                                          "; for __x in %s: __src\n" % it + "\n".join("                " + x for x in inv) +
                                          "\n            { %s __acc = __f(__acc, __x); %s } __acc }" % (kws.get("body", ""), kws.get("body_end", ""))))
                            log.append("R-fold: `%s.into_iter().fold(INIT, CL)` rewritten to `let mut acc = INIT; for x in %s { acc = CL(acc, x); } acc` (line %d)" % (
                                recv, recv, item.line0 + text.count("\n", 0, toks[k].start)))
                            found = True
                            break
                    k += 1
                if not found:
                    _gone("fold rule: occurrence %d not found" % n)
            elif rule in ("filter_collect", "map_collect", "map_collect_result"):
                # map_collect_result: the collect target is Result<Vec<T>, E> and the expression is the function's result:
                # loop { out.push(F(x)?) } Ok(out)   (FromIterator for Result stops at the first Err)
                # RECV.into_iter().filter(CL).collect()  /  RECV.into_iter().map(CL).collect()
                # (R-filter-collect / R-map-collect: definitions of Iterator::filter|map + collect into Vec)
                meth = rule.split("_")[0]
                cnt = 0
                found = False
                k = lo
                while k + 7 < hi:
                    tt = [toks[k + j].text for j in range(0, 7)]
                    if tt == [".", "into_iter", "(", ")", ".", meth, "("]:
                        cnt += 1
                        if cnt == max(n, 1):
                            r = recv_start(toks, k)
                            recv = text[toks[r].start:toks[k - 1].end]
                            fclose = match_close(toks, k + 6)
                            j = fclose + 1
                            if not (toks[j].text == "." and toks[j + 1].text == "collect"):
                                raise GenError("%s: %s rule: .collect expected" % (fnkey, rule))
                            j += 2
                            if toks[j].text == "::":
                                j = angle_skip(toks, j + 1)
                            if not (toks[j].text == "(" and toks[j + 1].text == ")"):
                                raise GenError("%s: %s rule: `()` expected after collect" % (fnkey, rule))
                            endtok = toks[j + 1]
                            it = kws.get("iter", "__it")
                            ety = pos[0] if pos else "_"
                            inv = []
                            if kws.get("invariant"):
                                inv.append("invariant")
                                for ci, cexpr in enumerate(split_top(kws["invariant"]), 1):
                                    cexpr, __xt = inv_clause(cexpr)
                                    obid = "%s#%s%dinv%d" % (fnkey, meth[:2] + "c", cnt, ci)
                                    inv.append("    %s,  /*@ob %s*/" % (cexpr, obid))
                                    em._pending.append({"id": obid, "kind": "loop-invariant", "fn": fnkey,
                                                        "tags": [t for t in fs.tags if t != "C16"] + __xt, "text": cexpr, "marker": obid})
                            edits.append((toks[r].start, toks[k + 6].end, "{ let __src = %s.into_iter(); let __f = " % recv))
                            if meth == "filter":
                                step = "if __f(&__x) { __out.push(__x); }"
                            elif rule == "map_collect_result":
                                step = "__out.push(__f(__x)?);"
                            else:
                                step = "__out.push(__f(__x));"
                            fin = "Ok(__out)" if rule == "map_collect_result" else "__out"
                            edits.append((toks[fclose].start, endtok.end,
                                          "; let mut __out: Vec<%s> = Vec::new(); for __x in %s: __src\n" % (ety, it) +
                                          "\n".join("                " + x for x in inv) +
                                          "\n            { %s %s } %s %s }" % (kws.get("body", ""), step, kws.get("post", ""), fin)))
                            log.append("R-%s-collect: `%s.into_iter().%s(CL).collect()` rewritten to an explicit loop calling CL (line %d)" % (
                                meth, recv, meth, item.line0 + text.count("\n", 0, toks[k].start)))
                            found = True
                            break
                    k += 1
                if not found:
                    _gone("%s rule: occurrence %d not found" % (rule, n))
            elif rule == "flatten_collect":
                # RECV.into_iter().flatten().collect()   (Vec<Vec<T>> -> Vec<T>; definitions of Iterator::flatten + collect into Vec)
                # { let __src = RECV.into_iter(); let mut __out: Vec<T> = Vec::new();
                #   for __g in it: __src INV { BODY let __gi = __g.into_iter(); for __x in it2: __gi INV2 { __out.push(__x); } BODY_END } POST __out }
                cnt = 0
                found = False
                k = lo
                while k + 11 < hi:
                    tt = [toks[k + j].text for j in range(0, 12)]
                    if tt == [".", "into_iter", "(", ")", ".", "flatten", "(", ")", ".", "collect", "(", ")"]:
                        cnt += 1
                        if cnt == max(n, 1):
                            r = recv_start(toks, k)
                            recv = text[toks[r].start:toks[k - 1].end]
                            it = kws.get("iter", "__it")
                            it2 = kws.get("iter2", "__it2")
                            ety = pos[0] if pos else "_"
                            invs = []
                            for key, tagk in (("invariant", "fcA"), ("invariant2", "fcB")):
                                inv = []
                                if kws.get(key):
                                    inv.append("invariant")
                                    for ci, cexpr in enumerate(split_top(kws[key]), 1):
                                        cexpr, __xt = inv_clause(cexpr)
                                        obid = "%s#%s%dinv%d" % (fnkey, tagk, cnt, ci)
                                        inv.append("    %s,  /*@ob %s*/" % (cexpr, obid))
                                        em._pending.append({"id": obid, "kind": "loop-invariant", "fn": fnkey,
                                                            "tags": [t for t in fs.tags if t != "C16"] + __xt, "text": cexpr, "marker": obid})
                                invs.append("\n".join("                " + x for x in inv))
                            edits.append((toks[r].start, toks[k + 11].end,
                                          "{ let __src = %s.into_iter(); let mut __out: Vec<%s> = Vec::new(); for __g in %s: __src\n%s\n            { %s let __gi = __g.into_iter(); for __x in %s: __gi\n%s\n            { %s __out.push(__x); %s } %s } %s __out }" % (
                                              recv, ety, it, invs[0], kws.get("body", ""), it2, invs[1], kws.get("body2", ""), kws.get("body2_end", ""), kws.get("body_end", ""), kws.get("post", ""))))
                            log.append("R-flatten-collect: `%s.into_iter().flatten().collect()` rewritten to two nested loops pushing every element (line %d)" % (
                                recv, item.line0 + text.count("\n", 0, toks[k].start)))
                            found = True
                            break
                    k += 1
                if not found:
                    _gone("flatten_collect rule: occurrence %d not found" % n)
            elif rule == "iter_map_collect_set":
                # RECV.iter().map(CL).collect()   where the collect target is a HashSet<T>:
                # { let __f = CL; let mut __out: HashSet<T> = HashSet::new(); for __x in it: RECV.iter() { __out.insert(__f(__x)); } __out }
                # (definitions of Iterator::map and FromIterator for HashSet)
                cnt = 0
                found = False
                k = lo
                while k + 7 < hi:
                    tt = [toks[k + j].text for j in range(0, 7)]
                    if tt == [".", "iter", "(", ")", ".", "map", "("]:
                        cnt += 1
                        if cnt == max(n, 1):
                            r = recv_start(toks, k)
                            while toks[r].text in ("&", "*"):     # a leading `&` applies to the whole chain, not to the receiver
                                r += 1
                            recv = text[toks[r].start:toks[k - 1].end]
                            fclose = match_close(toks, k + 6)
                            j = fclose + 1
                            if not (toks[j].text == "." and toks[j + 1].text == "collect"):
                                raise GenError("%s: %s rule: .collect expected" % (fnkey, rule))
                            j += 2
                            if toks[j].text == "::":
                                j = angle_skip(toks, j + 1)
                            if not (toks[j].text == "(" and toks[j + 1].text == ")"):
                                raise GenError("%s: %s rule: `()` expected after collect" % (fnkey, rule))
                            endtok = toks[j + 1]
                            it = kws.get("iter", "__it")
                            ety = pos[0] if pos else "_"
                            inv = []
                            if kws.get("invariant"):
                                inv.append("invariant")
                                for ci, cexpr in enumerate(split_top(kws["invariant"]), 1):
                                    cexpr, __xt = inv_clause(cexpr)
                                    obid = "%s#mcs%dinv%d" % (fnkey, cnt, ci)
                                    inv.append("    %s,  /*@ob %s*/" % (cexpr, obid))
                                    em._pending.append({"id": obid, "kind": "loop-invariant", "fn": fnkey,
                                                        "tags": [t for t in fs.tags if t != "C16"] + __xt, "text": cexpr, "marker": obid})
                            edits.append((toks[r].start, toks[k + 6].end, "{ let __src = %s.iter(); let __f = " % recv))
                            edits.append((toks[fclose].start, endtok.end,
                                          "; let mut __out: HashSet<%s> = HashSet::new(); for __x in %s: __src\n" % (ety, it) +
                                          "\n".join("                " + x for x in inv) +
                                          "\n            { %s __out.insert(__f(__x)); %s } %s __out }" % (kws.get("body", ""), kws.get("body_end", ""), kws.get("post", ""))))
                            log.append("R-iter-map-collect-set: `%s.iter().map(CL).collect()` into a HashSet rewritten to an explicit loop inserting CL(x) (line %d)" % (
                                recv, item.line0 + text.count("\n", 0, toks[k].start)))
                            found = True
                            break
                    k += 1
                if not found:
                    _gone("%s rule: occurrence %d not found" % (rule, n))
            elif rule == "filter_map_collect_result":
                # RECV.into_iter().filter(F).map(G).collect()   where the collect target is Result<Vec<T>, E> and the
                # expression is the function's result:  loop { if F(&x) { out.push(G(x)?) } } Ok(out)
                cnt = 0
                found = False
                k = lo
                while k + 7 < hi:
                    tt = [toks[k + j].text for j in range(0, 7)]
                    if tt == [".", "into_iter", "(", ")", ".", "filter", "("]:
                        cnt += 1
                        if cnt == max(n, 1):
                            r = recv_start(toks, k)
                            recv = text[toks[r].start:toks[k - 1].end]
                            fclose = match_close(toks, k + 6)
                            if not (toks[fclose + 1].text == "." and toks[fclose + 2].text == "map" and toks[fclose + 3].text == "("):
                                raise GenError("%s: filter_map_collect_result: `.map(` expected after filter" % fnkey)
                            mclose = match_close(toks, fclose + 3)
                            j = mclose + 1
                            if not (toks[j].text == "." and toks[j + 1].text == "collect"):
                                raise GenError("%s: filter_map_collect_result: .collect expected" % fnkey)
                            j += 2
                            if toks[j].text == "::":
                                j = angle_skip(toks, j + 1)
                            if not (toks[j].text == "(" and toks[j + 1].text == ")"):
                                raise GenError("%s: filter_map_collect_result: `()` expected" % fnkey)
                            endtok = toks[j + 1]
                            it = kws.get("iter", "__it")
                            ety = pos[0] if pos else "_"
                            inv = []
                            if kws.get("invariant"):
                                inv.append("invariant")
                                for ci, cexpr in enumerate(split_top(kws["invariant"]), 1):
                                    cexpr, __xt = inv_clause(cexpr)
                                    obid = "%s#fmc%dinv%d" % (fnkey, cnt, ci)
                                    inv.append("    %s,  /*@ob %s*/" % (cexpr, obid))
                                    em._pending.append({"id": obid, "kind": "loop-invariant", "fn": fnkey,
                                                        "tags": [t for t in fs.tags if t != "C16"] + __xt, "text": cexpr, "marker": obid})
                            edits.append((toks[r].start, toks[k + 6].end, "{ let __src = %s.into_iter(); let __f = " % recv))
                            edits.append((toks[fclose].start, toks[fclose + 3].end, "; let __g = "))
                            edits.append((toks[mclose].start, endtok.end,
                                          "; let mut __out: Vec<%s> = Vec::new(); for __x in %s: __src\n" % (ety, it) +
                                          "\n".join("                " + x for x in inv) +
                                          "\n            { %s if __f(&__x) { __out.push(__g(__x)?); } } %s Ok(__out) }" % (kws.get("body", ""), kws.get("post", ""))))
                            log.append("R-filter-map-collect-result: `%s.into_iter().filter(F).map(G).collect::<Result<Vec<_>,_>>()` rewritten to a loop `if F(&x) { out.push(G(x)?) }` ending in Ok(out) (line %d)" % (
                                recv, item.line0 + text.count("\n", 0, toks[k].start)))
                            found = True
                            break
                    k += 1
                if not found:
                    _gone("filter_map_collect_result rule: occurrence %d not found" % n)
            elif rule == "for_each":
                # ITER.for_each(|x| { BODY });   ->   for x in it: ITER invariant .. { BODY }   (R-for-each)
                cnt = 0
                found = False
                k = lo
                while k + 2 < hi:
                    if toks[k].text == "." and toks[k + 1].text == "for_each" and toks[k + 2].text == "(":
                        cnt += 1
                        if cnt == max(n, 1):
                            r = recv_start(toks, k)
                            iter_txt = text[toks[r].start:toks[k - 1].end]
                            fclose = match_close(toks, k + 2)
                            if toks[fclose + 1].text != ";":
                                raise GenError("%s: for_each rule: statement must end with ';'" % fnkey)
                            # closure |x| {BODY}
                            if toks[k + 3].text != "|" or toks[k + 5].text != "|" or toks[k + 6].text != "{":
                                raise GenError("%s: for_each rule: expected `|x| { .. }`" % fnkey)
                            var = toks[k + 4].text
                            bclose = match_close(toks, k + 6)
                            it = kws.get("iter", "__it")
                            inv = []
                            if kws.get("invariant"):
                                inv.append("invariant")
                                for ci, cexpr in enumerate(split_top(kws["invariant"]), 1):
                                    cexpr, __xt = inv_clause(cexpr)
                                    obid = "%s#fe%dinv%d" % (fnkey, cnt, ci)
                                    inv.append("    %s,  /*@ob %s*/" % (cexpr, obid))
                                    em._pending.append({"id": obid, "kind": "loop-invariant", "fn": fnkey,
                                                        "tags": [t for t in fs.tags if t != "C16"] + __xt, "text": cexpr, "marker": obid})
                            edits.append((toks[r].start, toks[k + 6].start, "for %s in %s: %s\n" % (var, it, iter_txt) +
                                          "\n".join("                " + x for x in inv) + "\n            "))
                            if kws.get("body"):
                                edits.append((toks[k + 6].end, toks[k + 6].end, " " + kws["body"]))
                            edits.append((toks[bclose].end, toks[fclose + 1].end, ""))
                            log.append("R-for-each: `%s.for_each(|%s| {..});` rewritten to a for loop (line %d)" % (
                                iter_txt, var, item.line0 + text.count("\n", 0, toks[k].start)))
                            found = True
                            break
                    k += 1
                if not found:
                    _gone("for_each rule: occurrence %d not found" % n)
            elif rule == "collect_result":
                # X.iter().cloned().map(F).collect::<Result<Vec<T>, E>>()?   (R-collect-result)
                cnt = 0
                found = False
                k = lo
                while k + 12 < hi:
                    tt = [toks[k + j].text for j in range(0, 9)]
                    if tt[:9] == [".", "iter", "(", ")", ".", "cloned", "(", ")", "."] and toks[k + 9].text == "map" and toks[k + 10].text == "(":
                        cnt += 1
                        if cnt == max(n, 1):
                            r = recv_start(toks, k)
                            recv = text[toks[r].start:toks[k - 1].end]
                            mclose = match_close(toks, k + 10)
                            fexpr = text[toks[k + 11].start:toks[mclose - 1].end]
                            # .collect::<...>()?
                            j = mclose + 1
                            if not (toks[j].text == "." and toks[j + 1].text == "collect"):
                                raise GenError("%s: collect_result rule: .collect expected" % fnkey)
                            j += 2
                            if toks[j].text == "::":
                                j = angle_skip(toks, j + 1)
                            if not (toks[j].text == "(" and toks[j + 1].text == ")" and toks[j + 2].text == "?"):
                                raise GenError("%s: collect_result rule: `()?` expected after collect" % fnkey)
                            endtok = toks[j + 2]
                            it = kws.get("iter", "__it")
                            ety = pos[0] if pos else "_"
                            inv = []
                            if kws.get("invariant"):
                                inv.append("invariant")
                                for ci, cexpr in enumerate(split_top(kws["invariant"]), 1):
                                    cexpr, __xt = inv_clause(cexpr)
                                    obid = "%s#cr%dinv%d" % (fnkey, cnt, ci)
                                    inv.append("    %s,  /*@ob %s*/" % (cexpr, obid))
                                    em._pending.append({"id": obid, "kind": "loop-invariant", "fn": fnkey,
                                                        "tags": [t for t in fs.tags if t != "C16"] + __xt, "text": cexpr, "marker": obid})
                            body_hint = kws.get("body", "")   # reused field: proof text placed at loop body start
                            rep = ("{ let mut __v: Vec<%s> = Vec::new(); for __x in %s: %s.iter()\n" % (ety, it, recv) +
                                   "\n".join("                " + x for x in inv) +
                                   "\n            { %s __v.push(%s(__x.clone())?); } %s __v }" % (body_hint, fexpr, kws.get("post", "")))
                            edits.append((toks[r].start, endtok.end, rep))
                            log.append("R-collect-result: `%s.iter().cloned().map(%s).collect::<Result<Vec<_>,_>>()?` rewritten to a loop that pushes `%s(x.clone())?` (line %d)" % (
                                recv, fexpr, fexpr, item.line0 + text.count("\n", 0, toks[k].start)))
                            found = True
                            break
                    k += 1
                if not found:
                    _gone("collect_result rule: occurrence %d not found" % n)
            elif rule == "rename_local":
                # rule rename_local :: old :: new :: "anchor text that contains the binding occurrence" :: why
                # alpha-renaming: the identifier token `old` at the anchor and every later occurrence in the body
                old_n, new_n = pos[0], pos[1]
                anchor = pos[2].strip('"') if len(pos) > 2 else None
                why = pos[3] if len(pos) > 3 else ""
                a_idx = text.find(anchor) if anchor else -1
                if a_idx < 0:
                    degraded.append("rename_local rule: anchor %r not found" % anchor)
                else:
                    cnt_r = 0
                    first = True
                    for t in toks[lo:hi]:
                        if t.start < a_idx:
                            continue
                        if t.kind == "ident" and t.text == old_n:
                            # the occurrence on the right-hand side of the binding statement itself still names the outer variable
                            if first:
                                first = False
                                edits.append((t.start, t.end, new_n)); cnt_r += 1
                                stmt_end = text.find(";", t.end)
                                continue
                            if t.start < stmt_end:
                                continue
                            edits.append((t.start, t.end, new_n)); cnt_r += 1
                    log.append("R-rename-local: local `%s` renamed to `%s` (%d occurrences) (%s)" % (old_n, new_n, cnt_r, why))
            elif rule == "let_chain":
                # rule let_chain :: "<text at which the chain starts>" :: why
                # R-let-chain (A-normal form): a method chain `E.m1(a).m2(b).m3(c)` becomes
                # `{ let __c1 = E; let __c2 = __c1.m1(a); let __c3 = __c2.m2(b); __c3.m3(c) }` -- same evaluation order
                # (receiver, then arguments, left to right); only names the intermediate values so that hints can
                # mention them.
                anchor = pos[0].strip('"')
                a_idx = text.find(anchor)
                k0 = next((q for q in range(lo, hi) if toks[q].start == a_idx), None) if a_idx >= 0 else None
                if k0 is None:
                    degraded.append("let_chain rule: anchor %r not found" % anchor)
                else:
                    # head: path/ident tokens up to and including the first call's closing paren
                    q = k0
                    while q < hi and toks[q].text != "(":
                        q += 1
                    q = match_close(toks, q)
                    cuts = [q]            # token index of the `)` ending each link
                    while q + 3 < hi and toks[q + 1].text == "." and toks[q + 2].kind == "ident" and toks[q + 3].text == "(":
                        q = match_close(toks, q + 3)
                        cuts.append(q)
                    if len(cuts) < 2:
                        degraded.append("let_chain rule: no method chain at %r" % anchor)
                    else:
                        parts = []
                        prev = toks[k0].start
                        for ci, c in enumerate(cuts):
                            parts.append(text[prev:toks[c].end])
                            prev = toks[c].end
                        out_t = "{ let __c1 = %s; " % parts[0]
                        for ci in range(1, len(parts) - 1):
                            out_t += "let __c%d = __c%d%s; " % (ci + 1, ci, parts[ci].strip())
                        if kws.get("post"):
                            out_t += kws["post"] + " "
                        out_t += "__c%d%s }" % (len(parts) - 1, parts[-1].strip())
                        edits.append((toks[k0].start, toks[cuts[-1]].end, out_t))
                        log.append("R-let-chain: method chain of %d calls at %r put in A-normal form (intermediate values named __c1..__c%d)" % (len(parts), anchor[:40], len(parts) - 1))
            elif rule == "subst_all":
                # like subst, every occurrence (at least one):  rule subst_all :: "<from>" :: "<to>" :: why
                frm, to = pos[0].strip('"'), pos[1].strip('"')
                why = pos[2] if len(pos) > 2 else ""
                idxs, q = [], text.find(frm)
                while q >= 0:
                    idxs.append(q); q = text.find(frm, q + len(frm))
                if not idxs:
                    degraded.append("subst_all rule: %r does not occur" % frm)
                else:
                    for q in idxs:
                        edits.append((q, q + len(frm), to))
                    log.append("R-subst: %r -> %r, %d occurrences (%s)" % (frm, to, len(idxs), why))
            elif rule == "visitor_struct":
                # rule visitor_struct :: <let-variable> :: <StructName> :: <state var> :: <state type>
                # R-refcell-visitor: the walk visitor closure bound by `let <var> = |..| {..};` is replaced by the unit struct
                # <StructName> (whose `visit` method is the closure body, rule R-closure-fn); the captured
                # `let <state> = RefCell::new(INIT);` becomes `let mut <state>: T = INIT;`, `.walk(ARGS, &<var>)` gets the
                # extra argument `&mut <state>`, and `<state>.into_inner()` becomes `<state>`.
                var, sname, st, sty = pos[0], pos[1], pos[2], pos[3]
                ok = True
                m1 = re.search(r"let\s+%s\s*(?::\s*RefCell\s*<[^=;]*>\s*)?=\s*RefCell::new\(" % re.escape(st), text)
                cl = [c for c in find_closures(toks, lo, hi)
                      if c["bar1"] >= 3 and toks[c["bar1"] - 1].text == "=" and toks[c["bar1"] - 2].text == var and toks[c["bar1"] - 3].text == "let"]
                m3 = re.search(r"\.walk\(([^;]*?),\s*&%s\)" % re.escape(var), text)
                m4 = re.search(r"\b%s\s*\.\s*into_inner\(\)" % re.escape(st), text)
                if not (m1 and len(cl) == 1 and m3 and m4):
                    degraded.append("visitor_struct rule: expected shape not found (RefCell state %s, closure %s, walk call, into_inner)" % (st, var))
                else:
                    # RefCell::new(INIT)
                    op = m1.end() - 1
                    depth, q = 0, op
                    while True:
                        ch = text[q]
                        if ch == "(":
                            depth += 1
                        elif ch == ")":
                            depth -= 1
                            if depth == 0:
                                break
                        q += 1
                    init = text[op + 1:q]
                    edits.append((m1.start(), q + 1, "let mut %s: %s = %s" % (st, sty, init)))
                    c = cl[0]
                    caps = [x.strip() for x in pos[4].split(",")] if len(pos) > 4 and pos[4].strip() and not pos[4].startswith("R-") else []
                    edits.append((toks[c["bar1"]].start, toks[c["body_end"]].end, sname + (" { %s }" % ", ".join(caps) if caps else "")))
                    edits.append((m3.end() - 1, m3.end() - 1, ", &mut %s" % st))
                    edits.append((m4.start(), m4.end(), st))
                    log.append("R-refcell-visitor: RefCell state `%s` threaded as `&mut %s`; visitor closure `%s` replaced by struct %s (static dispatch instead of `dyn Fn`)" % (st, sty, var, sname))
            elif rule == "subst":
                # closed, logged textual rewrite:  rule subst :: "<from>" :: "<to>" :: why
                frm, to = pos[0].strip('"'), pos[1].strip('"')
                why = pos[2] if len(pos) > 2 else ""
                idx = text.find(frm)
                if idx < 0:
                    # the text the rule rewrites is gone: nothing to rewrite.  Whatever replaced it is compiled and
                    # verified as it stands (an unsupported construct there ends in exit 2 by itself): orphaned, §8.2
                    degraded.append("orphan: subst rule: %r no longer occurs" % frm)
                elif text.find(frm, idx + 1) >= 0:
                    degraded.append("subst rule: %r does not occur exactly once" % frm)
                elif _mentions_lost(to):
                    degraded.append("subst rule %r dropped: its replacement mentions lost ghost %s" % (frm, _mentions_lost(to)))
                else:
                    edits.append((idx, idx + len(frm), to))
                    log.append("R-subst: %r -> %r (%s)" % (frm, to, why))
            else:
                raise GenError("%s: unknown rule %s" % (fnkey, rule))
        # ---- anchors
        for ai, (kind, anchor, nth, atext) in enumerate(fs.anchors):
            if ai in dropped_anchors:
                continue
            # whitespace in an anchor matches any run of whitespace (so an anchor may span lines)
            apat = r"\s+".join(re.escape(w) for w in anchor.split())
            ms = [m for m in re.finditer(apat, text)]
            body_lo = toks[lo].start
            ms = [m for m in ms if m.start() >= body_lo]
            idxs = [m.start() for m in ms]
            alens = [m.end() - m.start() for m in ms]
            if len(idxs) <= nth:
                degraded.append("anchor %r (nth=%d) not found" % (anchor, nth))
                continue
            if nth == 0 and len(idxs) > 1 and False:
                raise GenError("%s: anchor %r is ambiguous" % (fnkey, anchor))
            p = idxs[nth] if kind == "before" else idxs[nth] + alens[nth]
            if kind == "after_stmt":
                # the anchor is the START of a statement; the hint goes after the `;` that ends that statement
                depth, p = 0, None
                for t in toks:
                    if t.start < idxs[nth]:
                        continue
                    if t.text in ("(", "[", "{"):
                        depth += 1
                    elif t.text in (")", "]", "}"):
                        depth -= 1
                        if depth < 0:
                            break
                    elif t.text == ";" and depth == 0:
                        p = t.end
                        break
                if p is None:
                    degraded.append("anchor %r (nth=%d): no statement end found" % (anchor, nth))
                    continue
            edits.append((p, p, (" " if kind != "before" else "") + atext.strip() + ("\n        " if kind == "before" else "")))
        if fs.tail_post:
            # tail expression = everything after the last top-level `;` of the body
            q = sh.body_open + 1
            last_semi = None
            while q < sh.body_close:
                if toks[q].kind == "punct" and toks[q].text in OPEN:
                    q = match_close(toks, q) + 1
                    continue
                if toks[q].text == ";":
                    last_semi = q
                q += 1
            t0 = (last_semi + 1) if last_semi is not None else sh.body_open + 1
            # skip block statements (`if .. {..} [else ..]`, `for/while/loop/match .. {..}`) that precede the tail expression
            while t0 < sh.body_close and toks[t0].kind == "ident" and toks[t0].text in ("if", "for", "while", "loop", "match"):
                q = t0
                while True:
                    while q < sh.body_close and toks[q].text != "{":
                        if toks[q].text in ("(", "["):
                            q = match_close(toks, q)
                        q += 1
                    q = match_close(toks, q) + 1
                    if q < sh.body_close and toks[q].text == "else":
                        q += 1
                        continue
                    break
                if q >= sh.body_close:
                    break           # the block statement IS the tail expression
                t0 = q
            if t0 >= sh.body_close:
                degraded.append("tail_post: the body has no tail expression")
            else:
                edits.append((toks[t0].start, toks[t0].start, "let __r = "))
                edits.append((toks[sh.body_close - 1].end, toks[sh.body_close - 1].end, "; " + fs.tail_post + " __r"))
        if fs.body_post:
            bo_t, bc_t = toks[sh.body_open], toks[sh.body_close]
            edits.append((bo_t.start, bo_t.start, "{ let __r = "))
            edits.append((bc_t.end, bc_t.end, "; " + fs.body_post + " __r }"))
    else:
        if fs.closures or fs.loops or fs.anchors or fs.rules:
            raise GenError("%s: body directives on a bodiless fn" % fnkey)

    if fs.rename:
        nm = toks[sh.fn_k + 1]
        edits.append((nm.start, nm.end, fs.rename))
        if sh.fn_k == 0 or toks[sh.fn_k - 1].text != "pub":
            edits.append((toks[sh.fn_k].start, toks[sh.fn_k].start, "pub "))
        log.append("R-rename: fn `%s` of `%s` emitted as free function `%s` (Verus rejects recursion through a trait impl)" % (fs.name, fs.header, fs.rename))
    out = apply_edits(text, edits)
    if contract_marker:
        out = out.replace(contract_marker, "\n" + "\n".join(contract_lines) + "\n    ")
    return out, log, degraded

def closure_as_fn(fs, item):
    """Rule R-closure-fn: the closure bound by `let <var> = |params| -> _ { body };` in the enclosing function becomes the
    method `fn <name>(&self, <state>: <type>, params) -> <ret> { body }`, where every `<state>.borrow_mut()` in the body is
    replaced by `<state>` (the RefCell the closure captured becomes an explicit `&mut` parameter), `Self` in the parameter
    types is spelled out, and `_` parameters get names.  Closures that capture anything else are not supported."""
    spec = fs.from_closure
    text = item.text
    sh = parse_fn(text, fs.name)
    toks = sh.toks
    cls = find_closures(toks, sh.body_open, sh.body_close)
    pick = None
    for c in cls:
        b = c["bar1"]
        if b >= 3 and toks[b - 1].text == "=" and toks[b - 2].text == spec["var"] and toks[b - 3].text == "let":
            pick = c
    if pick is None:
        raise GenError("%s: no closure bound by `let %s =`" % (fs.key, spec["var"]))
    if not pick["block"]:
        raise GenError("%s: closure `%s` has no block body" % (fs.key, spec["var"]))
    params = []
    for i, (a, b) in enumerate(pick["params"], 1):
        pt = text[toks[a].start:toks[b - 1].end]
        m = re.match(r"\s*(\w+)\s*:\s*(.*)$", pt, re.S)
        if not m:
            raise GenError("%s: closure `%s`: parameter %r needs a type" % (fs.key, spec["var"], pt))
        nm, ty = m.group(1), m.group(2)
        if nm == "_":
            nm = "_p%d" % i
        ty = re.sub(r"\bSelf\b", spec["selfty"], ty)
        params.append("%s: %s" % (nm, ty))
    bo, bc = pick["body_start"], pick["body_end"]
    body = text[toks[bo].start:toks[bc].end]
    st_name = spec["state"].split(":")[0].strip()
    # `let mut S = S.borrow_mut();` (a named RefMut guard) disappears: later uses of S mean the `&mut` parameter itself
    body, n_guard = re.subn(r"let\s+(?:mut\s+)?%s\s*=\s*%s\s*\.\s*borrow_mut\s*\(\s*\)\s*;" % (re.escape(st_name), re.escape(st_name)), "", body)
    body2, n = re.subn(r"\b%s\s*\.\s*borrow_mut\s*\(\s*\)" % re.escape(st_name), st_name, body)
    n += n_guard
    # captured (by copy) variables become fields of the visitor value
    for cap in spec.get("captures", []):
        body2 = re.sub(r"(?<![\.\w])%s\b" % re.escape(cap), "self." + cap, body2)
    other = re.findall(r"\b(\w+)\s*\.\s*borrow(?:_mut)?\s*\(", body2)
    if other:
        raise GenError("%s: closure `%s` borrows other cells %s" % (fs.key, spec["var"], other))
    fn_text = "fn %s(&self, %s, %s) -> %s %s" % (spec["fn"], spec["state"], ", ".join(params), spec["ret"], body2)
    import copy
    it2 = copy.copy(item)
    it2.text = fn_text
    log = ["R-closure-fn: closure `%s` of %s emitted as method `%s`; %d `%s.borrow_mut()` replaced by the explicit `&mut` state parameter; RefCell run-time borrow checks are not modelled" % (
        spec["var"], fs.name, spec["fn"], n, st_name)]
    return it2, log

def emit_fn(fs, item, em):
    pre_log = []
    if fs.from_closure:
        import copy
        item, pre_log = closure_as_fn(fs, item)
        fs = copy.copy(fs)
        fs._orig_name = fs.name
        fs.__class__ = type("FnSpecClosure", (FnSpec,), {"key": property(lambda self: "%s:%s%s::closure %s" % (
            self.file, ("" if self.header in ("-", None) else self.header + "::"), self._orig_name, self.from_closure["var"]))})
        fs.name = fs.from_closure["fn"]
    out, log, degraded = instantiate_fn(fs, item, em)
    log = pre_log + log
    hdr = "    // @src %s:%d-%d sha256=%s key=%s" % (item.file, item.line0, item.line1, item.sha[:16], fs.key)
    em.add(hdr)
    for a in fs.attrs:
        em.add("    " + a)
    start = em.lineno
    em.add(out)
    end = em.lineno - 1
    # resolve obligation line numbers by marker
    marks = {}
    for ln in range(start, end + 1):
        for m in re.finditer(r"/\*@ob (.+?)\*/", em.lines[ln - 1]):
            marks[m.group(1)] = ln
    for ob in em._pending:
        if ob["id"] not in marks:
            raise GenError("internal: marker for %s lost" % ob["id"])
        last = marks[ob["id"]]
        nl = ob["text"].count("\n")
        ob["lines"] = list(range(last - nl, last + 1))
        ob.pop("rel_lines", None); ob.pop("marker", None)
        if ob["id"] in em.obs:
            raise GenError("duplicate obligation id %s" % ob["id"])
        em.obs[ob["id"]] = ob
    em._pending = []
    em.fn_ranges.append((start, end, fs.key, list(fs.tags)))
    em.functions.append({"key": fs.key, "file": item.file, "lines": [item.line0, item.line1], "sha256": item.sha,
                         "tags": list(fs.tags), "gen_lines": [start, end], "rewrites": log,
                         "name": fs.name, "header": fs.header, "degraded": degraded,
                         "rename_to": fs.rename})
    for d in degraded:
        em.degraded.append("%s: %s" % (fs.key, d))
    for l in log:
        em.rewrites.append("%s: %s" % (fs.key, l))

# ---------------------------------------------------------------------------------------------
# type extraction and tagged template functions

def emit_type(d, repo, em):
    sf = repo.file(d["file"])
    header = None
    derive_clone = False
    for o in d["opts"]:
        if o.startswith("header="):
            header = o[len("header="):]
    it = sf.find(header, d["name"], kind=d["kind"])
    text = it.text
    if d["kind"] == "struct":
        toks = code_toks(lex(text))
        # first bracket after the name (skip generics)
        k = 0
        while toks[k].text not in ("(", "{"):
            k += 1
        close = match_close(toks, k)
        edits = []
        j = k + 1
        expect_field = True
        while j < close:
            t = toks[j]
            if expect_field:
                if t.text != "pub":
                    edits.append((t.start, t.start, "pub "))
                expect_field = False
            if t.kind == "punct" and t.text in OPEN:
                j = match_close(toks, j) + 1
                continue
            if t.kind == "punct" and t.text == "<":
                j = angle_skip(toks, j)
                continue
            if t.kind == "punct" and t.text == ",":
                expect_field = True
            j += 1
        text = apply_edits(text, edits)
    if not text.startswith("pub "):
        text = "pub " + text
    drv = [a for a in it.attrs if re.match(r"#\[\s*derive\(", a)]
    keep = [d for d in ("Debug", "Clone", "Copy") if any(re.search(r"\b%s\b" % d, a) for a in drv)]
    if "Copy" not in keep:
        keep = [d for d in keep if d == "Debug"]      # Clone alone is given by the template (external_body clone with a spec)
    if keep:
        text = "#[derive(%s)]\n" % ", ".join(keep) + text
    em.add("    // @src %s:%d-%d sha256=%s type %s (derives dropped, fields pub)" % (
        it.file, it.line0, it.line1, it.sha[:16], d["name"]))
    em.add(text)
    em.functions.append({"key": "%s:type %s" % (it.file, d["name"]), "file": it.file, "lines": [it.line0, it.line1],
                         "sha256": it.sha, "tags": [], "gen_lines": [0, 0], "rewrites": [], "name": d["name"],
                         "header": "type"})

TAGGED_RE = re.compile(r"^\s*//@tagged\s+(.*)$")

def emit_text(seg, tmpl, em):
    """Copy template text; `//@tagged C01 C02` before a (proof/exec) fn registers it and its ensures clauses."""
    lines = seg.split("\n")
    base = em.lineno
    em.add(seg)
    i = 0
    while i < len(lines):
        m = TAGGED_RE.match(lines[i])
        if m:
            tags = m.group(1).split()
            rest = "\n".join(lines[i + 1:])
            toks = code_toks(lex(rest))
            k = 0
            while k < len(toks) and toks[k].text != "fn":
                k += 1
            if k >= len(toks):
                raise GenError("%s: //@tagged without fn" % tmpl)
            name = toks[k + 1].text
            sh = parse_fn(rest, name)
            # body of an already-contracted fn: first depth-0 `{` after the parameter list that does not
            # follow a capitalised identifier (struct pattern in a `matches` clause)
            if not sh.has_body:
                j = sh.params_close + 1
                while j < len(sh.toks):
                    tj = sh.toks[j]
                    if tj.kind == "punct" and tj.text in ("(", "["):
                        j = match_close(sh.toks, j) + 1
                        continue
                    if tj.kind == "punct" and tj.text == "{":
                        pv = sh.toks[j - 1]
                        if pv.kind == "ident" and pv.text[:1].isupper():
                            j = match_close(sh.toks, j) + 1
                            continue
                        sh.has_body = True
                        sh.body_open = j
                        sh.body_close = match_close(sh.toks, j)
                        break
                    if tj.kind == "punct" and tj.text == ";":
                        break
                    j += 1
            fnkey = "%s:%s" % (tmpl, name)
            l0 = base + i + 1
            endpos = sh.toks[sh.body_close].end if sh.has_body else sh.sig_end
            l1 = l0 + rest.count("\n", 0, endpos)
            em.fn_ranges.append((l0, l1, fnkey, tags))
            # ensures clauses between sig_end and body
            sig_tail = rest[sh.toks[sh.params_close].end: sh.toks[sh.body_open].start if sh.has_body else sh.sig_end]
            me = re.search(r"\bensures\b", sig_tail)
            nob = 0
            if me:
                ens_txt = sig_tail[me.end():]
                md = re.search(r"\bdecreases\b", ens_txt)
                if md:
                    ens_txt = ens_txt[:md.start()]
                off = sh.toks[sh.params_close].end + me.end()
                # locate each clause's line
                pos = 0
                for c in split_top(ens_txt):
                    idx = ens_txt.find(c, pos)
                    pos = idx + len(c)
                    ln0 = l0 + rest.count("\n", 0, off + idx)
                    ln1 = l0 + rest.count("\n", 0, off + idx + len(c))
                    nob += 1
                    obid = "%s#ens%d" % (fnkey, nob)
                    em.obs[obid] = {"id": obid, "kind": "ensures", "fn": fnkey, "tags": tags, "text": c,
                                    "lines": list(range(ln0, ln1 + 1))}
            # in-body assert( ... ) obligations
            if sh.has_body:
                na = 0
                for kk in range(sh.body_open, sh.body_close):
                    if sh.toks[kk].text == "assert" and sh.toks[kk + 1].text == "(":
                        na += 1
                        ln = l0 + rest.count("\n", 0, sh.toks[kk].start)
                        obid = "%s#assert%d" % (fnkey, na)
                        em.obs[obid] = {"id": obid, "kind": "assert", "fn": fnkey, "tags": tags,
                                        "text": rest[sh.toks[kk].start:sh.toks[match_close(sh.toks, kk + 1)].end][:200],
                                        "lines": [ln]}
            em.functions.append({"key": fnkey, "file": "verif:" + tmpl, "lines": [0, 0], "sha256": "", "tags": tags,
                                 "gen_lines": [l0, l1], "rewrites": [], "name": name, "header": "template"})
        i += 1


def emit_kvconsts(d, repo, em):
    """R-kv-const: every `known_value_constant!(NAME, n, "s");` becomes its expansion
    `pub const NAME: KnownValue = KnownValue::new_with_static_name(n, "s")`, with the const fn's body
    `Self { value, assigned_name: Some(KnownValueName::Static(name)) }` inlined so that the constant is usable in specs."""
    sf = repo.file(d["file"])
    n = 0
    for it in sf.items:
        if it.kind == "macro" and it.name == "known_value_constant":
            toks = code_toks(lex(it.text))
            # known_value_constant ! ( NAME , value , "name" ) ;
            try:
                o = next(i for i, t in enumerate(toks) if t.text == "(")
                name, value, sname = toks[o + 1].text, toks[o + 3].text, toks[o + 5].text
            except (StopIteration, IndexError):
                raise GenError("%s: cannot parse %s" % (d["file"], it.text))
            if not value.replace("_", "").isdigit():
                raise GenError("%s: known_value_constant value is not a literal: %s" % (d["file"], it.text))
            em.add("    // @src %s:%d %s" % (it.file, it.line0, it.text.strip()))
            em.add("    pub const %s: KnownValue = KnownValue { value: %s, assigned_name: Some(KnownValueName::Static(%s)) };" % (name, value, sname))
            em.add("    pub const %s_RAW: u64 = %s;" % (name, value))
            n += 1
    em.rewrites.append("%s: R-kv-const: %d known_value_constant! invocations expanded to their definition" % (d["file"], n))


def emit_leaf_decodable(d, repo, em):
    """R-macro-expand: `impl_envelope_decodable!(T);` expanded from its macro_rules definition
    (`impl TryFrom<Envelope> for T { fn try_from(envelope) { let cbor = envelope.try_leaf()?; cbor.try_into() } }`) with the
    contract: a leaf is handed to T's CBOR decoder, anything else is NotLeaf."""
    sf = repo.file(d["file"])
    ty = d["type"]
    mdef = [it for it in sf.items if it.kind == "macro" and it.name == "macro_rules" and ("macro_rules! %s" % d["macro"]) in it.text.replace("macro_rules !", "macro_rules!")]
    if not mdef:
        raise GenError("%s: macro_rules! %s not found" % (d["file"], d["macro"]))
    inv = [it for it in sf.items if it.kind == "macro" and it.name == d["macro"] and re.sub(r"\s+", "", it.text) in ("%s!(%s);" % (d["macro"], ty), "%s!(dcbor::%s);" % (d["macro"], ty))]
    if not inv:
        raise GenError("%s: invocation %s!(%s) not found" % (d["file"], d["macro"], ty))
    mtext = mdef[0].text
    toks = code_toks(lex(mtext))
    k = next(i for i, t in enumerate(toks) if t.text == "=>")
    bo = k + 1
    bc = match_close(toks, bo)
    body = mtext[toks[bo].end:toks[bc].start]
    pm = re.search(r"\(\s*\$(\w+)\s*:\s*ty\s*\)", mtext)
    if not pm:
        raise GenError("%s: macro %s: unexpected matcher" % (d["file"], d["macro"]))
    body = body.replace("$" + pm.group(1), ty)
    off = body.index("fn try_from")
    sh = parse_fn(body[off:], "try_from")
    rt0, rt1 = off + sh.ret_start, off + sh.ret_end
    fnkey = "%s:%s!(%s)::try_from" % (d["file"], d["macro"], ty)
    ob1, ob2 = fnkey + "#ens1", fnkey + "#ens2"
    contract = ("\n        ensures\n            *envelope.0 matches EnvelopeCase::Leaf { cbor, digest } ==> call_ensures(<%s as TryFrom<CBOR>>::try_from, (cbor,), r),  /*@ob %s*/\n"
                "            !(*envelope.0 is Leaf) ==> is_env_err(r, EnvelopeError::NotLeaf),  /*@ob %s*/\n    " % (ty, ob1, ob2))
    new_body = body[:rt0] + "(r: %s)" % body[rt0:rt1] + body[rt1:off + sh.sig_end] + contract + body[off + sh.sig_end:]
    em.add("    // @src %s:%d %s  (expanded from macro_rules! %s at line %d)" % (sf.rel, inv[0].line0, inv[0].text.strip(), d["macro"], mdef[0].line0))
    em.add("impl vstd::std_specs::convert::TryFromSpecImpl<Envelope> for %s {" % ty)
    em.add("    open spec fn obeys_try_from_spec() -> bool { false }")
    em.add("    uninterp spec fn try_from_spec(e: Envelope) -> Result<%s, Error>;" % ty)
    em.add("}")
    start = em.lineno
    em.add(new_body.strip("\n"))
    end = em.lineno - 1
    for ln in range(start, end + 1):
        for obid, txt in ((ob1, "leaf ==> T::try_from(cbor)"), (ob2, "not a leaf ==> NotLeaf")):
            if "/*@ob %s*/" % obid in em.lines[ln - 1]:
                em.obs[obid] = {"id": obid, "kind": "ensures", "fn": fnkey, "tags": list(d["tags"]), "text": txt, "lines": [ln]}
    em.fn_ranges.append((start, end, fnkey, list(d["tags"])))
    em.functions.append({"key": fnkey, "file": sf.rel, "lines": [inv[0].line0, inv[0].line1], "sha256": mdef[0].sha, "tags": list(d["tags"]),
                         "gen_lines": [start, end], "rewrites": ["R-macro-expand: %s!(%s)" % (d["macro"], ty)], "name": "try_from", "header": "macro"})
    em.rewrites.append("%s: R-macro-expand: %s!(%s) expanded from its macro_rules definition" % (sf.rel, d["macro"], ty))

def emit_leaf_type(d, repo, em):
    """R-macro-expand: `impl_envelope_encodable!(T);` expanded from the macro_rules definition in the same file
    (`impl From<T> for Envelope { fn from(value: T) -> Self { Envelope::new_leaf(value) } }`), with the contract
    `r == leaf_env(<CBOR as From<T>>::from_spec(value))`, plus the instance of the blanket
    `impl<T: Into<Envelope> + Clone> EnvelopeEncodable for T` at this type."""
    sf = repo.file(d["file"])
    ty = d["type"]
    mdef = [it for it in sf.items if it.kind == "macro" and it.name == "macro_rules" and ("macro_rules! %s" % d["macro"]) in it.text.replace("macro_rules !", "macro_rules!")]
    if not mdef:
        raise GenError("%s: macro_rules! %s not found" % (d["file"], d["macro"]))
    inv = [it for it in sf.items if it.kind == "macro" and it.name == d["macro"] and re.sub(r"\s+", "", it.text) in ("%s!(%s);" % (d["macro"], ty), "%s!(dcbor::%s);" % (d["macro"], ty))]
    if not inv:
        raise GenError("%s: invocation %s!(%s) not found" % (d["file"], d["macro"], ty))
    mtext = mdef[0].text
    toks = code_toks(lex(mtext))
    # single arm: ( $type : ty ) => { BODY }
    k = next(i for i, t in enumerate(toks) if t.text == "=>")
    bo = k + 1
    bc = match_close(toks, bo)
    body = mtext[toks[bo].end:toks[bc].start]
    pm = re.search(r"\(\s*\$(\w+)\s*:\s*ty\s*\)", mtext)
    if not pm:
        raise GenError("%s: macro %s: unexpected matcher" % (d["file"], d["macro"]))
    body = body.replace("$" + pm.group(1), ty)
    # inject the contract on `fn from`
    sh = parse_fn(body[body.index("fn from"):], "from")
    off = body.index("fn from")
    rt0, rt1 = off + sh.ret_start, off + sh.ret_end
    fnkey = "%s:%s!(%s)::from" % (d["file"], d["macro"], ty)
    obid = fnkey + "#ens1"
    contract = "\n        ensures\n            r == leaf_env(<CBOR as vstd::std_specs::convert::FromSpec<%s>>::from_spec(value)),  /*@ob %s*/\n    " % (ty, obid)
    new_body = body[:rt0] + "(r: %s)" % body[rt0:rt1] + body[rt1:off + sh.sig_end] + contract + body[off + sh.sig_end:]
    em.add("    // @src %s:%d %s  (expanded from macro_rules! %s at line %d)" % (sf.rel, inv[0].line0, inv[0].text.strip(), d["macro"], mdef[0].line0))
    em.add("impl vstd::std_specs::convert::FromSpecImpl<%s> for Envelope {" % ty)
    em.add("    open spec fn obeys_from_spec() -> bool { true }")
    em.add("    open spec fn from_spec(value: %s) -> Self { leaf_env(<CBOR as vstd::std_specs::convert::FromSpec<%s>>::from_spec(value)) }" % (ty, ty))
    em.add("}")
    start = em.lineno
    em.add(new_body.strip("\n"))
    end = em.lineno - 1
    for ln in range(start, end + 1):
        if "/*@ob %s*/" % obid in em.lines[ln - 1]:
            em.obs[obid] = {"id": obid, "kind": "ensures", "fn": fnkey, "tags": list(d["tags"]), "text": "r == leaf_env(from_spec(value))", "lines": [ln]}
    em.fn_ranges.append((start, end, fnkey, list(d["tags"])))
    em.functions.append({"key": fnkey, "file": sf.rel, "lines": [inv[0].line0, inv[0].line1], "sha256": mdef[0].sha, "tags": list(d["tags"]),
                         "gen_lines": [start, end], "rewrites": ["R-macro-expand: %s!(%s)" % (d["macro"], ty)], "name": "from", "header": "macro"})
    em.rewrites.append("%s: R-macro-expand: %s!(%s) expanded from its macro_rules definition" % (sf.rel, d["macro"], ty))
    # blanket EnvelopeEncodable instance (body of the blanket impl: `self.into()`)
    em.add("impl EnvelopeEncodable for %s {" % ty)
    em.add("    open spec fn enc_wf(self) -> bool { true }")
    em.add("    open spec fn enc_spec(self) -> Envelope { leaf_env(<CBOR as vstd::std_specs::convert::FromSpec<%s>>::from_spec(self)) }" % ty)
    em.add("    fn into_envelope(self) -> (r: Envelope) { self.into() }")
    em.add("}")
