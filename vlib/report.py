"""Per-property verdict, evidence, known findings, replay files."""
import hashlib
import json
import os
import re
import time

from . import pipeline as P
from .lexer import lex, code_toks

KNOWN = os.path.join(P.VERIF, "known_findings.json")

def sha(s):
    return hashlib.sha256(re.sub(r"\s+", " ", s.strip()).encode()).hexdigest()[:16]

def load_known():
    try:
        return json.load(open(KNOWN))
    except FileNotFoundError:
        return {"findings": [], "fixed": []}

def scan_trusted(lines):
    """Mechanical scan of the generated file for assumptions (DESIGN 5.4)."""
    out = {"external_body": [], "assume_specification": [], "axiom": [], "assume": [], "admit": []}
    ids = []
    last_id = None
    for n, l in enumerate(lines, 1):
        for m in re.finditer(r"\[(A-[a-z0-9\-]+)\]", l):
            last_id = m.group(1)
            if last_id not in ids:
                ids.append(last_id)
        code = l.split("//")[0]
        if "external_body" in code:
            out["external_body"].append(n)
        if "assume_specification" in code:
            out["assume_specification"].append(n)
        if re.search(r"\baxiom fn\b", code):
            out["axiom"].append(n)
        if re.search(r"\bassume\s*\(", code):
            out["assume"].append(n)
        if re.search(r"\badmit\s*\(", code):
            out["admit"].append(n)
    return out, ids

def call_site_obligations(em, lines):
    """Count call sites of contracted functions that have `requires` clauses (lexical)."""
    req_by_name = {}
    for ob in em.obs.values():
        if ob["kind"] == "requires":
            name = ob["fn"].split("::")[-1].split("#")[0]
            req_by_name.setdefault(name, []).append(ob)
    sites = []
    for f in em.functions:
        if f["header"] == "type":
            continue
        l0, l1 = f["gen_lines"]
        if l0 == 0:
            continue
        chunk = "\n".join(lines[l0 - 1:l1])
        try:
            toks = code_toks(lex(chunk))
        except Exception:
            continue
        for k, t in enumerate(toks):
            if t.kind == "ident" and t.text in req_by_name and k + 1 < len(toks) and toks[k + 1].text == "(" and (k == 0 or toks[k - 1].text != "fn"):
                ln = l0 + chunk.count("\n", 0, t.start)
                if "/*@ob" in lines[ln - 1]:
                    continue
                for ob in req_by_name[t.text]:
                    sites.append({"caller": f["key"], "callee_clause": ob["id"], "tags": ob["tags"], "line": ln})
    return sites

class Run:
    pass

def full_run(tier, seed, log=print):
    """Generate, verify, vacuity-check.  Raises P.Undecided on machinery problems."""
    from .extract import ExtractError
    from .gen import GenError
    r = Run()
    t0 = time.time()
    try:
        em = P.build()
    except (ExtractError, GenError) as e:
        raise P.Undecided("extraction/generation: %s" % e)
    os.makedirs(P.BUILD, exist_ok=True)
    path = os.path.join(P.BUILD, "bcenv_verif.rs")
    text = "\n".join(em.lines)
    open(path, "w").write(text)
    r.em, r.path, r.lines = em, path, em.lines
    r.res = P.run_verus(path)
    r.havoc = []
    r.havoc_fns = set()
    final_text = text
    # Unmodelled external (std) functions: Verus names the missing specification; it is added with NO postcondition
    # (result unconstrained, no panic assumed) and the run is repeated.  Logged in evidence/replay.
    for _round in range(4):
        sites = []
        decls = P.suggested_external_specs(r.res, sites)
        for ln in sites:
            for l0, l1, key, tags in em.fn_ranges:
                if ln is not None and l0 <= ln <= l1:
                    r.havoc_fns.add(key)
        decls = [d for d in decls if d not in r.havoc]
        if not decls:
            break
        r.havoc += decls
        text2 = text.replace(P.FOOTER, "pub mod auto_havoc {\nuse super::*;\nuse super::deps::*;\nuse super::spec::*;\n" +
                             "\n".join(r.havoc) + "\n} // mod auto_havoc\n" + P.FOOTER)
        open(path, "w").write(text2)
        final_text = text2
        r.res = P.run_verus(path)
    r.an = P.analyse(r.res, em, path)
    if r.an.build_errors:
        raise P.Undecided("the generated file does not compile (construct outside the supported subset, or a contract "
                          "no longer matches the source):\n" + "\n".join(r.an.build_errors[:5]))
    r.final_text = final_text
    cascade_analysis(r, path, final_text)
    vr = r.res["out"].get("verification-results")
    if not vr:
        raise P.Undecided("verus produced no result: " + r.res["stderr_tail"][-1500:])
    r.verified, r.errors = vr.get("verified", 0), vr.get("errors", 0)
    r.fn_times = P.function_times(r.res)
    # vacuity run
    vtext, probes = P.add_vacuity_probes(final_text, em.functions)
    vpath = os.path.join(P.BUILD, "bcenv_vacuity.rs")
    open(vpath, "w").write(vtext)
    vres = P.run_verus(vpath, multiple_errors=8)
    failed_probe_lines = set()
    for d in vres["diags"]:
        if d.get("level") == "error" and "assertion failed" in d.get("message", ""):
            for s in d.get("spans", []):
                if s.get("is_primary") and os.path.basename(s["file_name"]) == os.path.basename(vpath):
                    failed_probe_lines.add(s["line_start"])
    r.vac_total = len(probes)
    r.vac_silent = [probes[ln] for ln in probes if ln not in failed_probe_lines]
    vb = [d for d in vres["diags"] if P.classify(d)[0] == "build"]
    if vb:
        raise P.Undecided("vacuity file does not compile: %s" % (vb[0].get("rendered") or vb[0].get("message")))
    r.vac_wall = vres["wall"]
    r.trusted, r.assumption_ids = scan_trusted(em.lines)
    if r.trusted["assume"] or r.trusted["admit"]:
        bad = [n for n in r.trusted["assume"] + r.trusted["admit"] if "call_requires" not in em.lines[n - 1]]
        if bad:
            raise P.Undecided("assume/admit found in generated file at lines %s" % bad[:5])
    r.panic_sites = P.count_panic_sites(em, em.lines)
    r.call_sites = call_site_obligations(em, em.lines)
    r.wall = time.time() - t0
    return r

def cascade_analysis(r, path, text):
    """Mark failures that disappear when the failed panic sites are assumed not to panic (DESIGN 8)."""
    r.cascades = []
    panics = [f for f in r.an.failures if f["panic_site"] and f["kind"] == "pre" and f.get("site_span")]
    fns = {f["fn"] for f in panics}
    others = [f for f in r.an.failures if f["fn"] in fns and not f["panic_site"]]
    if not panics or not others:
        return
    lines = text.split("\n")
    edits = []
    for f in panics:
        sp = f["site_span"]
        if sp["line_start"] != sp["line_end"]:
            continue
        ln = sp["line_start"] - 1
        seg = lines[ln][sp["column_start"] - 1:sp["column_end"] - 1]
        new = None
        if seg.endswith(".unwrap()"):
            new = seg[:-len(".unwrap()")] + ".assume_unwrap()"
        elif ".expect(" in seg and seg.endswith(")"):
            new = seg[:seg.rfind(".expect(")] + ".assume_unwrap()"
        elif seg.startswith("assert!(") and seg.endswith(")"):
            new = "assume_true(" + seg[len("assert!("):]
        if new is not None:
            edits.append((ln, sp["column_start"] - 1, sp["column_end"] - 1, new))
    if not edits:
        return
    for ln, a, b, new in sorted(edits, key=lambda e: (e[0], -e[1])):
        lines[ln] = lines[ln][:a] + new + lines[ln][b:]
    wpath = os.path.join(P.BUILD, "bcenv_whatif.rs")
    open(wpath, "w").write("\n".join(lines))
    res2 = P.run_verus(wpath)
    an2 = P.analyse(res2, r.em, wpath)
    if an2.build_errors:
        return
    still = {(f["fn"], f["ob"], f["kind"], f["clause_line"]) for f in an2.failures}
    for f in others:
        if (f["fn"], f["ob"], f["kind"], f["clause_line"]) not in still:
            f["cascade_of_panic"] = True
            r.cascades.append(f["ob"] or ("%s@%s" % (f["kind"], f["fn"])))

def match_known(f, prop, known):
    for k in known.get("findings", []):
        if k.get("property") != prop:
            continue
        if k.get("fn") and k["fn"] != f["fn"]:
            continue
        if k.get("kind") and k["kind"] != f["kind"]:
            continue
        if k.get("ob") and k["ob"] != f["ob"]:
            continue
        if k.get("site_sha") and k["site_sha"] != sha(f["site_text"]):
            continue
        return k
    return None

NOT_DECIDED = {}
LEVEL_NOTES = {}

ALIASES = {"from_tagged_cbor_data": "from_untagged_cbor", "from_tagged_cbor": "from_untagged_cbor", "tagged_cbor": "untagged_cbor",
           "to_cbor_data": "untagged_cbor", "to_envelope": "into_envelope", "into": "from", "try_into": "try_from"}

def call_reach(em, lines, roots):
    """Functions under contract reachable from `roots` through calls, by name (over-approximation): a call `x.name(` or
    `Type::name(` or `name(` in the generated text of a function is an edge to every function under contract of that name."""
    import re as _re
    by_name = {}
    for f in em.functions:
        if f.get("header") in ("type",):
            continue
        for nm in {f.get("name"), f.get("rename_to")}:
            if nm:
                by_name.setdefault(nm, set()).add(f["key"])
    edges = {}
    for f in em.functions:
        l0, l1 = f.get("gen_lines", [0, 0])
        if not l0:
            continue
        body = "\n".join(lines[l0 - 1:l1])
        callees = set()
        for m in _re.finditer(r"\b([A-Za-z_][A-Za-z0-9_]*)\s*(?:::<[^>]*>)?\s*\(", body):
            nm = m.group(1)
            # provided trait methods / conversions dispatch to the implementor's required method
            for nm2 in (nm, ALIASES.get(nm)):
                if nm2 and nm2 in by_name and nm2 != f.get("name"):
                    callees |= by_name[nm2]
        edges[f["key"]] = callees - {f["key"]}
    seen = set(roots)
    todo = list(roots)
    while todo:
        k = todo.pop()
        for c in edges.get(k, ()):
            if c not in seen:
                seen.add(c); todo.append(c)
    return seen

REMOVABLE = ("post", "inv-front", "inv-end")

def dep_whatif(r, prop, dep_fail, reach, known0):
    """The dependency rule, made precise.  `dep_fail` are failed clauses of functions that property `prop` reaches by calls
    (none of them tagged `prop`).  Re-verify with exactly those clauses REMOVED from the contracts (replaced by `true`: no
    longer an obligation of the callee and no longer assumed by its callers; a failed loop-invariant conjunct likewise).
    If every obligation tagged `prop` is still discharged, the property's proof does not rest on the broken clauses.
    Returns (True, note) = independent, (False, note) = it does rest on them, (None, why) = cannot tell (a failed proof hint
    or call precondition cannot be un-assumed this way; new failures keep appearing; the variant does not compile)."""
    cache = r.__dict__.setdefault("_whatif_cache", {})
    removed = set()
    fails = list(dep_fail)
    text = getattr(r, "final_text", None)
    if text is None:
        return None, "no generated text kept"
    asserts = {}      # (line, col_start, col_end) of failed in-body assertions (proof hints) to be dropped as well
    for rnd in range(8):
        bad = []
        for f in fails:
            if f["ob"] and f["kind"] in REMOVABLE:
                continue
            sp = f.get("site_span")
            if f["kind"] == "assert" and sp and sp["line_start"] == sp["line_end"]:
                asserts[(sp["line_start"] - 1, sp["column_start"] - 1, sp["column_end"] - 1)] = f
                continue
            bad.append(f)
        if bad:
            return None, "a failed %s in %s cannot be un-assumed" % (bad[0]["kind"], bad[0]["fn"].split("::")[-1])
        removed |= {f["ob"] for f in fails if f["ob"] and f["kind"] in REMOVABLE}
        key = (tuple(sorted(removed)), tuple(sorted(asserts)))
        if key in cache:
            an2 = cache[key]
        else:
            lines = text.split("\n")
            hit = 0
            for i, l in enumerate(lines):
                if "/*@ob " not in l:
                    continue
                for ob in removed:
                    mk = "/*@ob %s*/" % ob
                    if mk in l:
                        ind = l[:len(l) - len(l.lstrip())]
                        lines[i] = "%strue,  %s" % (ind, mk)
                        hit += 1
            if hit < len(removed):
                return None, "clause text of a failed obligation not found"
            # a failed `assert(X)` of a proof hint is assumed by Verus from there on: drop it (only the plain form)
            for (ln, a, b) in sorted(asserts, key=lambda t: (t[0], -t[1])):
                seg = lines[ln][a:b]
                if not (seg.startswith("assert(") and seg.endswith(")")):
                    return None, "a failed proof hint in %s cannot be un-assumed" % asserts[(ln, a, b)]["fn"].split("::")[-1]
                lines[ln] = lines[ln][:a] + "assert(true)" + lines[ln][b:]
            wpath = os.path.join(P.BUILD, "bcenv_depwhatif.rs")
            open(wpath, "w").write("\n".join(lines))
            an2 = P.analyse(P.run_verus(wpath), r.em, wpath)
            cache[key] = an2
        if an2.build_errors:
            return None, "the variant without the failed clauses does not compile"
        mine = [f for f in an2.failures if prop in P.failure_tags(f) and not f.get("cascade_of_panic")
                and not match_known(f, prop, known0)]
        base = {(g["fn"], g["ob"], g["kind"], g["site_line"]) for g in r.an.failures}
        mine = [f for f in mine if (f["fn"], f["ob"], f["kind"], f["site_line"]) not in base]
        if mine:
            return False, "without %s, %s no longer verifies" % (", ".join(sorted(x.split("::")[-1] for x in removed))[:200] or "the failed hints",
                                                                 ", ".join(sorted({(f["ob"] or ("%s@%s" % (f["kind"], f["fn"]))).split("::")[-1] for f in mine}))[:200])
        more = [f for f in an2.failures if f["fn"] in reach and prop not in P.failure_tags(f) and not f.get("cascade_of_panic")
                and (f["fn"], f["ob"], f["kind"], f["site_line"]) not in base
                and not any(match_known(f, t, known0) for t in P.failure_tags(f))]
        if not more:
            return True, "re-verified without the failed clauses %s: every obligation of %s is still discharged" % (
                ", ".join(sorted(x.split("::")[-1] for x in removed))[:300], prop)
        fails = more
    return None, "removing failed clauses keeps uncovering further failures"

def decide(prop, r, tier, seed, meta):
    """Returns (exit_code, output_lines, evidence_dict)."""
    em = r.em
    out = []
    obs = [ob for ob in em.obs.values() if prop in ob["tags"]]
    fn_keys = sorted({ob["fn"] for ob in obs} | {f["key"] for f in em.functions if prop in f["tags"]})
    if prop == "C16":
        fn_keys = sorted(set(fn_keys) | {f["key"] for f in em.functions if not f["file"].startswith("verif:") and f["header"] != "type"})
    panic = []
    if prop == "C16":
        panic = r.panic_sites
    else:
        fset = {f["key"] for f in em.functions if prop in f["tags"]}
        panic = []
    calls = [c for c in r.call_sites if prop in c["tags"]]
    failures = [f for f in r.an.failures if prop in P.failure_tags(f) and not (f.get("cascade_of_panic") and prop != "C16")]
    # Modular verification: the obligations of this property were discharged ASSUMING the full contracts of the functions
    # they call.  If a function reachable (by call) from this property's functions fails any obligation that is not
    # tagged with this property, nothing tagged here failed, but the proof no longer stands on established contracts:
    # undecided (exit 2), never a silent exit 0.  Recorded findings (and their cascades) are excluded.
    known0 = load_known()
    dep_fail = []
    if prop != "C16":
        mine_fns = {f["key"] for f in em.functions if prop in f["tags"]} | {ob["fn"] for ob in obs}
        own_fns = {f["key"] for f in em.functions if prop in f["tags"]}      # functions of this property itself
        reach = call_reach(em, r.lines, mine_fns)
        for f in r.an.failures:
            if prop in P.failure_tags(f) or f.get("cascade_of_panic"):
                continue
            if f["fn"] in reach and f["fn"] not in own_fns:
                if any(match_known(f, t, known0) for t in P.failure_tags(f)):
                    continue
                dep_fail.append(f)
    if prop == "C16":
        # panic freedom: the functions that carry panic-site obligations (or clauses / call preconditions tagged C16) were
        # verified ASSUMING the contracts of what they call, and assuming every earlier invariant / hint of their own body
        # (Verus assumes a failed assertion or invariant downstream, which masks the sites after it).  A failure that is not
        # itself charged to C16 but sits in such a function or in something it reaches: undecided, never a silent exit 0.
        mine_fns = {p_["fn"] for p_ in r.panic_sites} | {ob["fn"] for ob in obs} | {c["caller"] for c in calls}
        reach = call_reach(em, r.lines, mine_fns)
        for f in r.an.failures:
            if prop in P.failure_tags(f) or f.get("cascade_of_panic"):
                continue
            if f["fn"] in reach:
                if f["fn"] in mine_fns and f["kind"] == "post":
                    # a failed postcondition does not mask the sites of its own body; callers are covered through `reach`
                    if not any(f["fn"] in call_reach(em, r.lines, {g}) for g in mine_fns if g != f["fn"]):
                        continue
                if any(match_known(f, t, known0) for t in P.failure_tags(f)):
                    continue
                dep_fail.append(f)
    undec = [u for u in r.an.undecided if u["fn"] is None or any(u["fn"] == f["key"] and prop in f["tags"] for f in em.functions)]
    # a failure inside a function some of whose annotations could not be placed (its source changed shape) cannot be told
    # from a lost proof hint: such failures are reported as UNDECIDED (exit 2), never as a violation
    deg_fns = {}
    for d in em.degraded:
        if ": orphan: " in d:
            continue      # annotation of a construct that no longer exists (see gen.py): not a lost hint
        deg_fns.setdefault(d.split(": ")[0], []).append(d)
    undec_deg = [f for f in failures if f["fn"] in deg_fns]
    failures = [f for f in failures if f not in undec_deg]
    # likewise a failure inside a function that calls an external function for which there is no model (its result is
    # treated as unconstrained): unsupported construct, not a violation
    undec_havoc = [f for f in failures if f["fn"] in getattr(r, "havoc_fns", set())]
    failures = [f for f in failures if f not in undec_havoc]
    known = load_known()
    new_fail, known_hit = [], []
    for f in failures:
        k = match_known(f, prop, known)
        if k:
            known_hit.append((f, k))
        else:
            new_fail.append(f)
    # obligations / discharged
    failed_obs = {f["ob"] for f in failures if f["ob"]}
    known_ob_ids = {f["ob"] for f, _ in []}
    n_obl = len(obs) + len(panic) + len(calls)
    n_failed = len({(f["ob"], f["site_line"], f["kind"]) for f in new_fail})
    # clauses split off as recorded findings are reported separately and are not counted among the claimed obligations
    known_obs = {f["ob"] for f, _ in known_hit if f["ob"] and any(o["id"] == f["ob"] for o in obs)}
    n_obl -= len(known_obs)
    n_known_clauses = 0
    # vacuity: silent probes in functions of this property => contradictory contract
    vac_bad = [k for k in r.vac_silent if any(k == f["key"] and prop in f["tags"] for f in em.functions)]
    code = 0
    if undec:
        out.append("UNDECIDED property=%s: %s" % (prop, "; ".join("%s in %s" % (u["what"], u["fn"]) for u in undec[:5])))
        code = 2
    if undec_deg:
        fl = sorted({(f["ob"] or ("%s@%s" % (f["kind"], f["fn"]))) for f in undec_deg})
        out.append("UNDECIDED property=%s: %s not discharged, but annotations of the enclosing function could not be placed because its source changed shape (%s), so a lost proof hint cannot be told from a violation" % (
            prop, ",".join(fl)[:400], "; ".join(sorted({d for f in undec_deg for d in deg_fns[f["fn"]]}))[:400]))
        code = 2
    if undec_havoc:
        fl = sorted({(f["ob"] or ("%s@%s" % (f["kind"], f["fn"]))) for f in undec_havoc})
        out.append("UNDECIDED property=%s: %s not discharged, but the enclosing function calls external functions that have no model here (%s); their results are unconstrained, so this is an unsupported construct, not a violation" % (
            prop, ",".join(fl)[:400], ", ".join(d.split("]")[0].split("[")[-1] for d in r.havoc)[:300]))
        code = 2
    dep_note = None
    if dep_fail and not new_fail:
        # (an obligation of this property itself failing is a violation whatever else its callees do)
        fl = sorted({"%s (%s)" % (f["fn"].split(":")[-1], (f["ob"] or f["kind"]).split("#")[-1]) for f in dep_fail})
        indep, why = dep_whatif(r, prop, dep_fail, reach, known0)
        if indep is True:
            # the failed clauses are not what this property's obligations rest on: decided, exit code unchanged
            dep_note = "functions reached by this property fail clauses not tagged %s (%s); %s" % (prop, "; ".join(fl)[:300], why)
        else:
            out.append("UNDECIDED property=%s: its obligations are discharged, but they rest on the contracts of functions they call, and these are no longer established: %s [%s]" % (prop, "; ".join(fl)[:500], why))
            code = 2
    if prop == "C16":
        grown = new_outside_panic_sites(em)
        if grown:
            out.append("UNDECIDED property=C16: functions that are not under contract gained lexical panic sites (unwrap/expect/panic!/assert!/range slice) since the baseline, which no obligation covers: %s" % "; ".join(grown)[:500])
            code = 2
    if vac_bad:
        out.append("UNDECIDED property=%s: vacuity probe did not fail (contradictory requires/axioms?) in %s" % (prop, vac_bad[:5]))
        code = 2
    if n_obl == 0:
        out.append("UNDECIDED property=%s: no obligations generated" % prop)
        code = 2
    for f, k in known_hit:
        out.append("KNOWN-FINDING: property=%s %s" % (prop, k.get("what", k.get("id", ""))))
    replay = None
    if new_fail:
        os.makedirs(os.path.join(P.VERIF, "replays"), exist_ok=True)
        replay = os.path.join(P.VERIF, "replays", "%s-%s.json" % (prop, time.strftime("%Y%m%dT%H%M%S")))
        json.dump({"property": prop, "tier": tier, "seed": seed,
                   "failed_obligations": [{"obligation": f["ob"] or ("%s@%s" % (f["kind"], f["fn"])), "function": f["fn"],
                                           "kind": f["kind"], "message": f["message"], "site_text": f["site_text"],
                                           "site_sha": sha(f["site_text"]), "panic_site": f["panic_site"],
                                           "source": next(({"file": x["file"], "lines": x["lines"], "sha256": x["sha256"]}
                                                           for x in em.functions if x["key"] == f["fn"]), None),
                                           "verus_output": f["rendered"]} for f in new_fail],
                   "counterexample": None,
                   "annotations_not_placed": [d for d in em.degraded],
                   "unmodelled_external_functions_treated_as_unconstrained": [d.split("]")[0].split("[")[-1] for d in r.havoc],
                   "note": "Verus reports no model; no failing concrete input was searched/found. Re-run with `./check replay <this file>`.",
                   "checker_cmd": r.res["cmd"]}, open(replay, "w"), indent=1)
        names = ",".join(sorted({(f["ob"] or ("%s@%s[%s]" % (f["kind"], f["fn"], f["site_text"][:50]))).replace(" ", "_") for f in new_fail}))[:600]
        out.append("VIOLATION property=%s replay=%s obligations=%s no-failing-input-found" % (prop, replay, names))
        if code == 0:
            code = 1
    ev = evidence(prop, r, tier, seed, meta, obs, panic, calls, new_fail, known_hit, fn_keys, n_obl, n_failed + n_known_clauses)
    ev["coverage"]["dependency_rule"] = dep_note or "no function reached by this property fails a clause"
    return code, out, ev

PANIC_LEX = r"\.unwrap\(\)|\.expect\(|panic!|unreachable!|assert!\(|assert_eq!\(|unimplemented!|todo!|\w\[[^\[\]\n]*\.\.[^\[\]\n]*\]"

def outside_panic_sites(em, counts=False):
    """C16 scope statement, recomputed on every run: non-test functions of /repo/src that are NOT under contract and contain
    a lexical panic site (unwrap/expect/panic!/assert!/unreachable!/range slice `x[a..b]`).  These are outside what the check
    decides.  With counts=True: {function: number of sites}, compared with contracts/PANIC_BASELINE.json by decide()."""
    import re as _re, glob
    from .extract import Repo
    root = os.path.join(P.REPO, "src")
    under = {(f["file"], f["name"]) for f in em.functions} | {(f["file"], f.get("rename_to")) for f in em.functions}
    repo = Repo(root)
    out = []
    cnt = {}
    for path in sorted(glob.glob(os.path.join(root, "**", "*.rs"), recursive=True)):
        rel = os.path.relpath(path, root)
        try:
            sf = repo.file(rel)
        except Exception:
            continue
        for it in sf.items:
            if it.kind != "fn" or it.name.startswith("test_") or (rel, it.name) in under:
                continue
            n = len(_re.findall(PANIC_LEX, it.text))
            if counts:
                cnt["%s: %s%s" % (rel, (it.header + "::") if it.header and it.header != "-" else "", it.name)] = n
            elif n:
                out.append("%s: %s%s (%d site%s)" % (rel, (it.header + "::") if it.header and it.header != "-" else "", it.name, n, "" if n == 1 else "s"))
    return cnt if counts else out

def new_outside_panic_sites(em):
    """Functions NOT under contract whose number of lexical panic sites rose above contracts/PANIC_BASELINE.json (recorded by
    `./check baseline` on the tree the contracts were written for).  C16 cannot decide such a site (no contract reaches it) and
    must not pass it silently: decide() turns a non-empty result into UNDECIDED (exit 2), never into a VIOLATION."""
    bp = os.path.join(P.VERIF, "contracts", "PANIC_BASELINE.json")
    if not os.path.exists(bp):
        return []
    base = json.load(open(bp))
    now = outside_panic_sites(em, counts=True)
    return sorted("%s (%d -> %d)" % (k, base.get(k, 0), n) for k, n in now.items() if n > base.get(k, 0))

def evidence(prop, r, tier, seed, meta, obs, panic, calls, new_fail, known_hit, fn_keys, n_obl, n_notdis):
    em = r.em
    fns = []
    for f in em.functions:
        if f["key"] in fn_keys or prop in f["tags"]:
            simple = f["name"]
            ms = [v for k, v in r.fn_times.items() if k.endswith("::" + (f.get("rename_to") or simple))]
            fns.append({"function": f["key"], "source": "%s:%d-%d" % (f["file"], f["lines"][0], f["lines"][1]),
                        "sha256": f["sha256"][:16], "smt_ms": max([m["ms"] for m in ms], default=None),
                        "rewrites": f["rewrites"]})
    tb = []
    for n in r.trusted["external_body"] + r.trusted["assume_specification"] + r.trusted["axiom"]:
        pass
    samples = [{"obligation": ob["id"], "kind": ob["kind"], "clause": ob["text"][:300]} for ob in obs[:6]]
    if prop == "C16":
        samples += [{"obligation": "panic-site %s line %d" % (p["what"], p["line"]), "kind": "panic-site", "function": p["fn"]} for p in panic[:6]]
    smt_total = None
    try:
        smt_total = r.res["out"]["times-ms"]["smt"]["total"]
    except (KeyError, TypeError):
        pass
    n_dis = n_obl - n_notdis
    ev = {
        "property_id": prop, "tier": tier, "seed": seed, "level": "proof",
        "coverage": {
            "obligations": n_obl, "discharged": max(n_dis, 0),
            "obligation_breakdown": {"contract_clauses_and_lemma_goals": len(obs), "panic_sites": len(panic),
                                     "call_site_preconditions": len(calls)},
            "checker_cmd": r.res["cmd"],
            "backend": "verus 0.2026.09.13 / z3 (bundled)",
            "trusted_base": sorted(r.assumption_ids) + meta.get("extra_trusted", []),
            "trusted_base_scan": {k: len(v) for k, v in r.trusted.items()},
            "functions_under_contract": fns,
            "functions_under_contract_count": len(fns),
            "whole_file": {"verified_functions": r.verified, "errors": r.errors, "generated_lines": len(em.lines),
                           "all_obligations": len(em.obs)},
            "extraction": {"rewrites": em.rewrites, "dropped": "doc comments, comments, #[cfg(feature)] attrs (default features), #[inline]/#[allow]/#[derive] attrs, visibility qualifiers normalised"},
            "annotations_not_placed": list(em.degraded),
            "cascades_of_failed_panic_sites": list(getattr(r, "cascades", [])),
            "unmodelled_external_functions_treated_as_unconstrained": [d.split("]")[0].split("[")[-1] for d in r.havoc],
            "vacuity_probes": {"total": r.vac_total, "silent": r.vac_silent},
            "solver_ms": smt_total, "verus_wall_s": round(r.res["wall"], 2), "vacuity_wall_s": round(r.vac_wall, 2),
            "known_finding_clauses": [k.get("id") for _, k in known_hit],
            "not_decided": meta.get("not_decided", []),
            "panic_sites_outside_contracts": (outside_panic_sites(em) if prop == "C16" else None),
            "samples": samples,
            "explanation": meta.get("explanation", ""),
        },
        "assumptions": meta.get("assumptions", []) + ["every [A-*] id in coverage.trusted_base is an assumed contract on a dependency (see prelude/deps.rs)",
                        "machine arithmetic is NOT treated as mathematical (overflow is an obligation); recursion depth/stack and allocation failure are not modelled",
                        "SHA-256 is an uninterpreted function (no injectivity assumed)"],
        "wall_s": round(r.wall, 2),
        "violations": len(new_fail),
    }
    return ev
